#!/bin/bash
# Runs the repository's own test suite (guard off: /verif adds no hooks to /repo) and compares
# the passing set with the 207 stable tests of /root/.vp/BASELINE.json.
cd "${VERIF_BASELINE_REPO:-/repo}" || exit 2
OUT=$(mktemp /var/tmp/gverif_baseline.XXXXXX)
CARGO_NET_OFFLINE=true cargo test --workspace --no-fail-fast --offline --lib --tests > "$OUT" 2>&1
python3 - "$OUT" <<'PY'
import json, re, sys
text = open(sys.argv[1], errors="replace").read()
want = set(json.load(open("/root/.vp/BASELINE.json"))["stable_pass"])
cur = None
passed = set()
for line in text.split("\n"):
    m = re.match(r'\s*Running (?:unittests )?(\S+)', line)
    if m:
        p = m.group(1)
        if p.startswith("src/"):
            cur = "graphrs"
        else:
            cur = "graphrs::" + re.sub(r'\.rs$', '', p.split("/")[-1])
        continue
    m = re.match(r'test (\S+) \.\.\. ok', line)
    if m and cur:
        passed.add(cur + "::" + m.group(1))
missing = sorted(want - passed)
print("baseline: %d/%d stable tests pass" % (len(want) - len(missing), len(want)))
for x in missing[:20]:
    print("MISSING", x)
sys.exit(1 if missing else 0)
PY
rc=$?
rm -f "$OUT"
exit $rc
