
use graphrs::generators::random::fast_gnp_random_graph;
use std::collections::BTreeSet;
fn main() {
    // silence panic messages of the probes
    std::panic::set_hook(Box::new(|_| {}));
    let n: i32 = 2;
    let directed: bool = false;
    // (a) which pairs ever occur
    let mut seen: BTreeSet<(i32, i32)> = BTreeSet::new();
    let mut bad_pairs = 0usize;
    let mut panics = 0usize;
    let mut first_panic = String::new();
    for &p in &[0.5f64, 0.2, 0.9] {
        for seed in 0..1500u64 {
            match std::panic::catch_unwind(|| fast_gnp_random_graph(n, p, directed, Some(seed))) {
                Ok(Ok(g)) => {
                    let mut local = BTreeSet::new();
                    for e in g.get_all_edges() {
                        let pr = if directed { (e.u, e.v) } else { (e.u.max(e.v), e.u.min(e.v)) };
                        if e.u == e.v || e.u < 0 || e.v < 0 || e.u >= n || e.v >= n || !local.insert(pr) { bad_pairs += 1; }
                        seen.insert(pr);
                    }
                    if g.get_all_nodes().len() as i32 != n { bad_pairs += 1; }
                }
                Ok(Err(_)) => { bad_pairs += 1; }
                Err(_) => { panics += 1; if first_panic.is_empty() { first_panic = format!("n={} p={} directed={} seed={}", n, p, directed, seed); } }
            }
        }
    }
    // (b) tiny / extreme probabilities: panic or garbage?
    for &p in &[1e-12f64, 1e-9, 1e-7, 1e-5, 1e-3, 0.999999999, f64::MIN_POSITIVE] {
        for seed in 0..400u64 {
            for &nn in &[n, 5, 50] {
                match std::panic::catch_unwind(|| fast_gnp_random_graph(nn, p, directed, Some(seed))) {
                    Ok(Ok(g)) => {
                        for e in g.get_all_edges() {
                            if e.u == e.v || e.u < 0 || e.v < 0 || e.u >= nn || e.v >= nn { bad_pairs += 1; }
                        }
                        if g.get_all_nodes().len() as i32 != nn { bad_pairs += 1; }
                    }
                    Ok(Err(_)) => { bad_pairs += 1; }
                    Err(_) => { panics += 1; if first_panic.is_empty() { first_panic = format!("n={} p={:e} directed={} seed={}", nn, p, directed, seed); } }
                }
            }
        }
    }
    // (c) mean edge count over seeds vs p x pairs (sparse graphs: a skip often crosses several rows)
    let mut worst_dev = 0.0f64;
    for &(nn, p) in &[(100i32, 0.005f64), (40, 0.02), (12, 0.3)] {
        let runs = 1500u64;
        let mut tot = 0usize;
        for seed in 0..runs {
            if let Ok(Ok(g)) = std::panic::catch_unwind(|| fast_gnp_random_graph(nn, p, directed, Some(seed))) { tot += g.get_all_edges().len(); }
        }
        let pairs = if directed { (nn * (nn - 1)) as f64 } else { (nn * (nn - 1)) as f64 / 2.0 };
        let mean = tot as f64 / runs as f64;
        let dev = ((mean - p * pairs) / (p * pairs)).abs() - 1.0 / (nn as f64 - 1.0);
        if dev > worst_dev { worst_dev = dev; }
        println!("MEAN n={} p={} directed={} mean={:.3} expected={:.3}", nn, p, directed, mean, p * pairs);
    }
    println!("MEAN_DEV {:.4}", worst_dev);
    let total: usize = if directed { (n * (n - 1)) as usize } else { (n * (n - 1) / 2) as usize };
    println!("PAIRS_SEEN {} of {} : {:?}", seen.len(), total, seen);
    println!("BAD_PAIRS {}", bad_pairs);
    println!("PANICS {} first: {}", panics, first_panic);
}
