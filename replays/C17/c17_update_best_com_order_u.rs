
use graphrs::{algorithms::community::louvain, Edge, Graph, GraphSpecs};
use std::collections::BTreeSet;
fn canon(p: &Vec<Vec<std::collections::HashSet<i32>>>) -> Vec<BTreeSet<BTreeSet<i32>>> {
    p.iter().map(|lvl| lvl.iter().map(|c| c.iter().cloned().collect()).collect()).collect()
}
fn main() {
    let mut worst = 1usize;
    for (name, edges, directed) in [("cycle4", vec![(0,1),(1,2),(2,3),(3,0)], false), ("cycle6", vec![(0,1),(1,2),(2,3),(3,4),(4,5),(5,0)], false),
        ("k33", vec![(0,3),(0,4),(0,5),(1,3),(1,4),(1,5),(2,3),(2,4),(2,5)], false), ("dcycle4", vec![(0,1),(1,2),(2,3),(3,0),(1,0),(2,1),(3,2),(0,3)], true)] {
        let es: Vec<_> = edges.iter().map(|(a,b)| Edge::with_weight(*a, *b, 1.0)).collect();
        let specs = if directed { GraphSpecs::directed_create_missing() } else { GraphSpecs::undirected_create_missing() };
        let g: Graph<i32, ()> = Graph::new_from_nodes_and_edges(vec![], es, specs).unwrap();
        for seed in [1u64, 7, 42] {
            let mut seen = BTreeSet::new();
            for _ in 0..200 {
                let p = louvain::louvain_partitions(&g, false, None, None, Some(seed)).unwrap();
                seen.insert(canon(&p));
            }
            if seen.len() > worst { worst = seen.len(); println!("{} seed {}: {} distinct results over 200 calls", name, seed, seen.len()); }
        }
    }
    println!("MAX_DISTINCT {}", worst);
}
