//! K-ac harness for C16 (complete_graph), child module of graphrs::generators::classic.
use super::*;
use crate::vk::*;
use crate::{vassert, vcover};

fn complete_body(n: i32) {
    complete_body_d(n, any_bool())
}
/// `directed` is a constant in the `_d` / `_u` harnesses: itertools' permutations / combinations over a
/// symbolic flag is what puts `c16_complete_n{2,3}` out of reach.
fn complete_body_d(n: i32, directed: bool) {
    let g = complete_graph(n, directed);
    let names = g.get_all_node_names();
    vassert!(names.len() as i32 == n, "complete_graph has exactly n nodes");
    let mut i = 0;
    while i < n {
        vassert!(g.has_node(&i), "complete_graph has the nodes 0..n-1");
        i += 1;
    }
    let es = g.get_all_edges();
    let want = if directed { n * (n - 1) } else { n * (n - 1) / 2 };
    vassert!(es.len() as i32 == want, "complete_graph has one edge per (un)ordered pair of distinct nodes");
    let mut a = 0;
    while a < n {
        let mut b = 0;
        while b < n {
            if a != b {
                vassert!(g.get_edge(a, b).is_ok(), "every pair of distinct nodes is joined");
            } else {
                vassert!(g.get_edge(a, b).is_err(), "no self-loops");
            }
            b += 1;
        }
        a += 1;
    }
    vassert!(g.specs.directed == directed, "directedness as requested");
    vcover!(directed, "directed");
    vcover!(!directed, "undirected");
    core::mem::forget(es);
    core::mem::forget(names);
    core::mem::forget(g);
}
crate::vharness! { unwind = 6; fn c16_complete_n0() { complete_body(0) } }
crate::vharness! { unwind = 6; fn c16_complete_n1() { complete_body(1) } }
crate::vharness! { unwind = 6; fn c16_complete_n2() { complete_body(2) } }
crate::vharness! { unwind = 8; fn c16_complete_n3() { complete_body(3) } }
crate::vharness! { unwind = 6; fn c16_complete_n2_u() { complete_body_d(2, false) } }
crate::vharness! { unwind = 6; fn c16_complete_n2_d() { complete_body_d(2, true) } }
crate::vharness! { unwind = 8; fn c16_complete_n3_u() { complete_body_d(3, false) } }
crate::vharness! { unwind = 8; fn c16_complete_n3_d() { complete_body_d(3, true) } }
