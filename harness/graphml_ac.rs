//! K-ac harnesses for C19 (element-handler level), child module of graphrs::readwrite::graphml.
//! A start tag is built from a constant element name followed by symbolic bytes drawn from a small
//! alphabet that contains every character class the attribute scanner distinguishes (name char,
//! '=', both quotes, blank, '&', ';', '<'); the handlers must return Ok or Err, never panic.
use super::*;
use crate::vk::*;
use crate::{vassert, vcover};

const ALPHABET: [u8; 8] = [b'i', b'd', b'=', b'"', b'\'', b' ', b'&', b';'];

fn any_tail<const N: usize>() -> Vec<u8> {
    let mut v = Vec::with_capacity(N);
    let mut i = 0;
    while i < N {
        let k = any_below(8) as usize;
        v.push(ALPHABET[k]);
        i += 1;
    }
    v
}

fn c19_node_handler<const N: usize>() {
    let mut content: Vec<u8> = b"node ".to_vec();
    content.extend_from_slice(&any_tail::<N>());
    let s = String::from_utf8(content).unwrap();
    let e = BytesStart::from_content(s, 4);
    let mut nodes: Vec<Arc<Node<String, ()>>> = vec![];
    let r = add_node(&mut nodes, &e);
    vcover!(r.is_ok(), "a node was read");
    vcover!(r.is_err(), "an error was returned");
    match &r {
        Ok(_) => vassert!(nodes.len() == 1, "Ok adds exactly one node"),
        Err(er) => vassert!(matches!(er.kind, ErrorKind::ReadError) && nodes.is_empty(), "a malformed element yields ReadError and adds nothing"),
    }
    core::mem::forget(r);
    core::mem::forget(nodes);
    core::mem::forget(e);
}

/// Environment stub: CPUID reports no optional CPU feature, so memchr (used by quick-xml's scanners)
/// takes its portable fallback instead of the inline-assembly feature probe Kani cannot execute.
pub fn cpuid_stub(_leaf: u32, _sub_leaf: u32) -> std::arch::x86_64::CpuidResult {
    std::arch::x86_64::CpuidResult { eax: 0, ebx: 0, ecx: 0, edx: 0 }
}

macro_rules! c19_harness {
    ($name:ident, $n:literal) => {
        #[cfg_attr(
            kani,
            kani::proof,
            kani::unwind(12),
            kani::stub(alloc::fmt::format, crate::vk::stub_format),
            kani::stub(std::arch::x86_64::__cpuid_count, cpuid_stub)
        )]
        #[cfg_attr(all(feature = "verif_replay", not(kani)), test)]
        #[allow(dead_code)]
        fn $name() {
            crate::vk::begin(stringify!($name));
            c19_node_handler::<$n>();
            crate::vk::end();
        }
    };
}
c19_harness!(c19_node_handler_6, 6);
c19_harness!(c19_node_handler_4, 4);
