//! Reference model and representation-level observations shared by the Graph-level harnesses
//! (child module of `graphrs::graph`, so it can *read* the private indexes; nothing here mutates
//! a Graph). The reference operations are written from the text of property C01, not from
//! creation.rs.
#![allow(dead_code)]
use super::adjacent_node::AdjacentNode;
use super::Graph;
use super::{IntMap as IntMapT, IntSet as IntSetT};
pub(crate) type HashMapT<K, V> = super::HashMap<K, V>;
pub(crate) type HashSetT<T> = super::HashSet<T>;
use crate::vk::{same_weight, Nm};
use crate::{Edge, EdgeDedupeStrategy, GraphSpecs, MissingNodeStrategy, Node, SelfLoopsFalseStrategy};
use std::sync::Arc;

pub(crate) type G = Graph<Nm, u8>;

pub(crate) const MAXN: usize = 4;
pub(crate) const MAXE: usize = 4;

/// Abstract graph: ordered node list (name, attribute) and an edge multiset (u, v, weight).
#[derive(Clone, Copy)]
pub(crate) struct RefGraph {
    pub n: usize,
    pub names: [u8; MAXN],
    pub attrs: [Option<u8>; MAXN],
    pub m: usize,
    pub eu: [u8; MAXE],
    pub ev: [u8; MAXE],
    pub ew: [f64; MAXE],
}

#[derive(Clone, Copy, PartialEq, Eq, Debug)]
pub(crate) enum Outcome {
    Ok,
    SelfLoopsFound,
    NodeNotFound,
    DuplicateEdge,
    OtherErr,
}

pub(crate) fn outcome_of(r: &Result<(), crate::Error>) -> Outcome {
    match r {
        Ok(_) => Outcome::Ok,
        Err(e) => match e.kind {
            crate::ErrorKind::SelfLoopsFound => Outcome::SelfLoopsFound,
            crate::ErrorKind::NodeNotFound => Outcome::NodeNotFound,
            crate::ErrorKind::DuplicateEdge => Outcome::DuplicateEdge,
            _ => Outcome::OtherErr,
        },
    }
}

impl RefGraph {
    pub fn empty() -> RefGraph {
        RefGraph {
            n: 0,
            names: [0; MAXN],
            attrs: [None; MAXN],
            m: 0,
            eu: [0; MAXE],
            ev: [0; MAXE],
            ew: [0.0; MAXE],
        }
    }
    pub fn pos(&self, x: u8) -> Option<usize> {
        let mut i = 0;
        while i < MAXN {
            if i < self.n && self.names[i] == x {
                return Some(i);
            }
            i += 1;
        }
        None
    }
    /// add_node: replace attributes in place for an existing name, append otherwise.
    pub fn add_node(&mut self, x: u8, attr: Option<u8>) {
        match self.pos(x) {
            Some(i) => self.attrs[i] = attr,
            None => {
                assert!(self.n < MAXN, "VERIF_BOUND model node capacity");
                self.names[self.n] = x;
                self.attrs[self.n] = attr;
                self.n += 1;
            }
        }
    }
    fn same_pair(directed: bool, a: u8, b: u8, u: u8, v: u8) -> bool {
        (a == u && b == v) || (!directed && a == v && b == u)
    }
    pub fn count_pair(&self, directed: bool, u: u8, v: u8) -> usize {
        let mut c = 0;
        let mut k = 0;
        while k < MAXE {
            if k < self.m && Self::same_pair(directed, self.eu[k], self.ev[k], u, v) {
                c += 1;
            }
            k += 1;
        }
        c
    }
    /// add_edge as property C01 states it.
    pub fn add_edge(&mut self, s: &GraphSpecs, u: u8, v: u8, w: f64) -> Outcome {
        // self-loop policy
        if u == v && !s.self_loops {
            return match s.self_loops_false_strategy {
                SelfLoopsFalseStrategy::Error => Outcome::SelfLoopsFound,
                SelfLoopsFalseStrategy::Drop => Outcome::Ok,
            };
        }
        // missing-node policy
        let missing = self.pos(u).is_none() || self.pos(v).is_none();
        if missing && s.missing_node_strategy == MissingNodeStrategy::Error {
            return Outcome::NodeNotFound;
        }
        // duplicate policy (decided on the state before node creation: a pair with a missing
        // endpoint cannot have an edge)
        let dup = self.count_pair(s.directed, u, v) > 0;
        if dup && !s.multi_edges && s.edge_dedupe_strategy == EdgeDedupeStrategy::Error {
            return Outcome::DuplicateEdge;
        }
        // node creation, source first
        if self.pos(u).is_none() {
            self.add_node(u, None);
        }
        if self.pos(v).is_none() {
            self.add_node(v, None);
        }
        if dup && !s.multi_edges {
            match s.edge_dedupe_strategy {
                EdgeDedupeStrategy::KeepFirst => {}
                _ => {
                    // KeepLast: the new edge replaces the stored one
                    let mut k = 0;
                    while k < MAXE {
                        if k < self.m && Self::same_pair(s.directed, self.eu[k], self.ev[k], u, v) {
                            self.eu[k] = u;
                            self.ev[k] = v;
                            self.ew[k] = w;
                        }
                        k += 1;
                    }
                }
            }
            return Outcome::Ok;
        }
        assert!(self.m < MAXE, "VERIF_BOUND model edge capacity");
        self.eu[self.m] = u;
        self.ev[self.m] = v;
        self.ew[self.m] = w;
        self.m += 1;
        Outcome::Ok
    }

    /// All edges weighted or all edges unweighted (the domain of property C03).
    pub fn uniform_weights(&self) -> bool {
        let mut nan = 0;
        let mut k = 0;
        while k < MAXE {
            if k < self.m && self.ew[k].is_nan() {
                nan += 1;
            }
            k += 1;
        }
        nan == 0 || nan == self.m
    }

    /// Number of model edges equal to (u, v, w) (orientation-insensitive when undirected).
    pub fn count_edge(&self, directed: bool, u: u8, v: u8, w: f64) -> usize {
        let mut c = 0;
        let mut k = 0;
        while k < MAXE {
            if k < self.m
                && Self::same_pair(directed, self.eu[k], self.ev[k], u, v)
                && same_weight(self.ew[k], w)
            {
                c += 1;
            }
            k += 1;
        }
        c
    }

    /// Same ordered node list (names + attributes) and same edge multiset.
    pub fn same_as(&self, o: &RefGraph, directed: bool) -> bool {
        if self.n != o.n || self.m != o.m {
            return false;
        }
        let mut ok = true;
        let mut i = 0;
        while i < MAXN {
            if i < self.n && (self.names[i] != o.names[i] || self.attrs[i] != o.attrs[i]) {
                ok = false;
            }
            i += 1;
        }
        let mut k = 0;
        while k < MAXE {
            if k < self.m {
                let (u, v, w) = (self.eu[k], self.ev[k], self.ew[k]);
                if self.count_edge(directed, u, v, w) != o.count_edge(directed, u, v, w) {
                    ok = false;
                }
            }
            k += 1;
        }
        ok
    }
}

/// Abstraction of a Graph: node list from the position store, edge multiset from the name-keyed
/// edge store (both are what `get_all_nodes` / `get_all_edges` read).
pub(crate) fn alpha(g: &G) -> RefGraph {
    let mut r = RefGraph::empty();
    assert!(g.nodes_vec.len() <= MAXN, "VERIF_BOUND model node capacity");
    let mut i = 0;
    while i < g.nodes_vec.len() {
        r.names[i] = g.nodes_vec[i].name.0;
        r.attrs[i] = g.nodes_vec[i].attributes;
        i += 1;
    }
    r.n = g.nodes_vec.len();
    for (_k, es) in g.edges.iter() {
        let mut j = 0;
        while j < es.len() {
            assert!(r.m < MAXE, "VERIF_BOUND model edge capacity");
            r.eu[r.m] = es[j].u.0;
            r.ev[r.m] = es[j].v.0;
            r.ew[r.m] = es[j].weight;
            r.m += 1;
            j += 1;
        }
    }
    r
}

// ------------------------------------------------------------------------------------------
// Representation invariant: every redundant index agrees with (node list, edge multiset).

fn listed(adj: &Vec<Vec<AdjacentNode>>, i: usize, j: usize) -> (bool, f64) {
    let mut present = false;
    let mut m = f64::NAN;
    if i < adj.len() {
        let row = &adj[i];
        let mut k = 0;
        while k < row.len() {
            if row[k].node_index == j {
                if !present || m.is_nan() || row[k].weight < m {
                    m = row[k].weight;
                }
                present = true;
            }
            k += 1;
        }
    }
    (present, m)
}

/// (exists, min weight, count) of the model edges from name a to name b (either orientation when
/// undirected).
fn model_pair(r: &RefGraph, directed: bool, a: u8, b: u8) -> (bool, f64, usize) {
    let mut c = 0;
    let mut m = f64::NAN;
    let mut k = 0;
    while k < MAXE {
        if k < r.m && RefGraph::same_pair(directed, r.eu[k], r.ev[k], a, b) {
            if c == 0 || m.is_nan() || r.ew[k] < m {
                m = r.ew[k];
            }
            c += 1;
        }
        k += 1;
    }
    (c > 0, m, c)
}

/// C03 only: traversal lists agree with the model `r` (= alpha(g)).
pub(crate) fn traversal_ok(g: &G, r: &RefGraph) -> bool {
    let d = g.specs.directed;
    let uw = r.uniform_weights();
    let mut ok = g.successors_vec.len() == r.n && g.predecessors_vec.len() == r.n;
    let mut i = 0;
    while i < MAXN {
        let mut j = 0;
        while j < MAXN {
            if i < r.n && j < r.n {
                let (ex, mw, _c) = model_pair(r, d, r.names[i], r.names[j]);
                let (sp, sw) = listed(&g.successors_vec, i, j);
                if sp != ex || (ex && uw && !same_weight(sw, mw)) {
                    ok = false;
                }
                let (pp, pw) = listed(&g.predecessors_vec, j, i);
                if d {
                    if pp != ex || (ex && uw && !same_weight(pw, mw)) {
                        ok = false;
                    }
                } else if pp {
                    ok = false;
                }
            }
            j += 1;
        }
        i += 1;
    }
    ok
}

/// Node indexes agree: name->position, position->node, position store.
pub(crate) fn node_indexes_ok(g: &G, r: &RefGraph) -> bool {
    let mut ok = g.nodes_map.len() == r.n && g.nodes_map_rev.len() == r.n && g.nodes_vec.len() == r.n;
    let mut i = 0;
    while i < MAXN {
        if i < r.n {
            match g.nodes_map.get(&Nm(r.names[i])) {
                Some(p) if *p == i => {}
                _ => ok = false,
            }
            match g.nodes_map_rev.get(&i) {
                Some(nd) if nd.name.0 == r.names[i] && nd.attributes == r.attrs[i] => {}
                _ => ok = false,
            }
        }
        i += 1;
    }
    ok
}

/// Both edge stores agree with the model, pair by pair (count, order and weights of parallel
/// edges; canonical orientation by name in the name-keyed store, by position in the other).
pub(crate) fn edge_stores_ok(g: &G, r: &RefGraph) -> bool {
    let d = g.specs.directed;
    let mut ok = true;
    let mut keys = 0;
    let mut i = 0;
    while i < MAXN {
        let mut j = 0;
        while j < MAXN {
            if i < r.n && j < r.n {
                let (a, b) = (r.names[i], r.names[j]);
                let (_ex, _mw, cnt) = model_pair(r, d, a, b);
                // name-keyed store: directed key (a,b); undirected key is name-ordered
                let name_key_is_canonical = d || a <= b;
                let by_name = g.edges.get(&(Nm(a), Nm(b)));
                // position-keyed store: directed (i,j); undirected position-ordered
                let pos_key_is_canonical = d || i <= j;
                let by_pos = match g.edges_map.get(&i) {
                    None => None,
                    Some(m) => m.get(&j),
                };
                if name_key_is_canonical {
                    match by_name {
                        None => {
                            if cnt != 0 {
                                ok = false;
                            }
                        }
                        Some(es) => {
                            keys += 1;
                            if es.len() != cnt || cnt == 0 {
                                ok = false;
                            }
                            if !g.specs.multi_edges && es.len() != 1 {
                                ok = false;
                            }
                            let mut k = 0;
                            while k < es.len() {
                                if !(es[k].u.0 == a && es[k].v.0 == b) {
                                    ok = false;
                                }
                                k += 1;
                            }
                        }
                    }
                } else if by_name.is_some() {
                    ok = false;
                }
                if pos_key_is_canonical {
                    match by_pos {
                        None => {
                            if cnt != 0 {
                                ok = false;
                            }
                        }
                        Some(es) => {
                            if es.len() != cnt || cnt == 0 {
                                ok = false;
                            }
                            // same edges, same order, as the name-keyed store holds for the pair
                            let (ka, kb) = if d || a <= b { (a, b) } else { (b, a) };
                            match g.edges.get(&(Nm(ka), Nm(kb))) {
                                None => ok = false,
                                Some(ns) => {
                                    if ns.len() != es.len() {
                                        ok = false;
                                    } else {
                                        let mut k = 0;
                                        while k < es.len() {
                                            if es[k].u != ns[k].u
                                                || es[k].v != ns[k].v
                                                || !same_weight(es[k].weight, ns[k].weight)
                                            {
                                                ok = false;
                                            }
                                            k += 1;
                                        }
                                    }
                                }
                            }
                        }
                    }
                } else if by_pos.is_some() {
                    ok = false;
                }
            }
            j += 1;
        }
        i += 1;
    }
    // no key outside the node universe
    if g.edges.len() != keys {
        ok = false;
    }
    ok
}

/// Neighbour sets (name-keyed and position-keyed) agree with the model.
pub(crate) fn neighbour_sets_ok(g: &G, r: &RefGraph) -> bool {
    let d = g.specs.directed;
    let mut ok = true;
    let mut i = 0;
    while i < MAXN {
        let mut j = 0;
        while j < MAXN {
            if i < r.n && j < r.n {
                let (a, b) = (r.names[i], r.names[j]);
                let (ex, _mw, _c) = model_pair(r, d, a, b);
                let s_name = match g.successors.get(&Nm(a)) {
                    None => false,
                    Some(s) => s.contains(&Nm(b)),
                };
                let s_pos = match g.successors_map.get(&i) {
                    None => false,
                    Some(s) => s.contains(&j),
                };
                let p_name = match g.predecessors.get(&Nm(b)) {
                    None => false,
                    Some(s) => s.contains(&Nm(a)),
                };
                let p_pos = match g.predecessors_map.get(&j) {
                    None => false,
                    Some(s) => s.contains(&i),
                };
                if s_name != ex || s_pos != ex {
                    ok = false;
                }
                if d {
                    if p_name != ex || p_pos != ex {
                        ok = false;
                    }
                } else if p_name || p_pos {
                    ok = false;
                }
            }
            j += 1;
        }
        i += 1;
    }
    ok
}

/// All redundant indexes agree with the model for the ordered name pair (a, b) -- the O(1) slice of
/// the representation invariant used by the step harnesses (the full O(n^2) form is `rep_inv`).
pub(crate) fn pair_coherent(g: &G, r: &RefGraph, a: u8, b: u8) -> bool {
    pair_coherent_opt(g, r, a, b, r.uniform_weights())
}

/// `with_traversal_weights`: compare the traversal-list weight too (C03's clause is stated for
/// uniformly weighted or uniformly unweighted graphs only; presence is always compared).
pub(crate) fn pair_coherent_opt(g: &G, r: &RefGraph, a: u8, b: u8, with_traversal_weights: bool) -> bool {
    let d = g.specs.directed;
    let (ia, ib) = match (r.pos(a), r.pos(b)) {
        (Some(x), Some(y)) => (x, y),
        _ => return true,
    };
    let (ex, mw, cnt) = model_pair(r, d, a, b);
    let mut ok = true;
    // name-keyed and position-keyed stores
    let (ka, kb) = if d || a <= b { (a, b) } else { (b, a) };
    let (pa, pb) = if d || ia <= ib { (ia, ib) } else { (ib, ia) };
    let by_name = g.edges.get(&(Nm(ka), Nm(kb)));
    let by_pos = match g.edges_map.get(&pa) {
        None => None,
        Some(m) => m.get(&pb),
    };
    match (by_name, by_pos) {
        (None, None) => {
            if cnt != 0 {
                ok = false;
            }
        }
        (Some(x), Some(y)) => {
            if x.len() != cnt || y.len() != cnt || cnt == 0 {
                ok = false;
            } else {
                let mut k = 0;
                while k < x.len() {
                    if x[k].u.0 != ka || x[k].v.0 != kb || y[k].u.0 != ka || y[k].v.0 != kb
                        || !same_weight(x[k].weight, y[k].weight)
                    {
                        ok = false;
                    }
                    k += 1;
                }
            }
        }
        _ => ok = false,
    }
    // neighbour sets
    let s_name = match g.successors.get(&Nm(a)) {
        None => false,
        Some(s) => s.contains(&Nm(b)),
    };
    let s_pos = match g.successors_map.get(&ia) {
        None => false,
        Some(s) => s.contains(&ib),
    };
    let p_name = match g.predecessors.get(&Nm(b)) {
        None => false,
        Some(s) => s.contains(&Nm(a)),
    };
    let p_pos = match g.predecessors_map.get(&ib) {
        None => false,
        Some(s) => s.contains(&ia),
    };
    if s_name != ex || s_pos != ex {
        ok = false;
    }
    if d {
        if p_name != ex || p_pos != ex {
            ok = false;
        }
    } else if p_name || p_pos {
        ok = false;
    }
    // traversal lists
    let (sp, sw) = listed(&g.successors_vec, ia, ib);
    if sp != ex || (ex && with_traversal_weights && !same_weight(sw, mw)) {
        ok = false;
    }
    let (pp, pw) = listed(&g.predecessors_vec, ib, ia);
    if d {
        if pp != ex || (ex && with_traversal_weights && !same_weight(pw, mw)) {
            ok = false;
        }
    } else if pp {
        ok = false;
    }
    ok
}

/// Node indexes agree for one name.
pub(crate) fn node_coherent(g: &G, r: &RefGraph, a: u8) -> bool {
    match r.pos(a) {
        None => g.nodes_map.get(&Nm(a)).is_none(),
        Some(i) => {
            let m1 = match g.nodes_map.get(&Nm(a)) {
                Some(p) => *p == i,
                None => false,
            };
            let m2 = match g.nodes_map_rev.get(&i) {
                Some(nd) => nd.name.0 == a && nd.attributes == r.attrs[i],
                None => false,
            };
            m1 && m2
                && i < g.nodes_vec.len()
                && g.nodes_vec[i].name.0 == a
                && g.nodes_vec[i].attributes == r.attrs[i]
                && g.successors_vec.len() == r.n
                && g.predecessors_vec.len() == r.n
        }
    }
}

/// Full representation invariant w.r.t. r = alpha(g).
pub(crate) fn rep_inv(g: &G, r: &RefGraph) -> bool {
    node_indexes_ok(g, r) && edge_stores_ok(g, r) && neighbour_sets_ok(g, r) && traversal_ok(g, r)
}

// ------------------------------------------------------------------------------------------
// Harness-side construction helpers (real API calls with concrete names).

pub(crate) fn permissive(directed: bool, multi: bool) -> GraphSpecs {
    GraphSpecs {
        directed,
        edge_dedupe_strategy: EdgeDedupeStrategy::KeepLast,
        missing_node_strategy: MissingNodeStrategy::Create,
        multi_edges: multi,
        self_loops: true,
        self_loops_false_strategy: SelfLoopsFalseStrategy::Drop,
    }
}

pub(crate) fn node(x: u8, attr: Option<u8>) -> Arc<Node<Nm, u8>> {
    Arc::new(Node {
        name: Nm(x),
        attributes: attr,
    })
}

pub(crate) fn edge(u: u8, v: u8, w: f64) -> Arc<Edge<Nm, u8>> {
    Edge::with_weight(Nm(u), Nm(v), w)
}

// ------------------------------------------------------------------------------------------
// Direct construction of a pre-state (DESIGN.md 3.2 "Layer 0"): fills every index of a Graph from
// a node list and an edge list *without* running the policy ladder, so that the state is a
// compile-time-constant shape for the engine (add_edge's `Result<&Edge, Error>::is_ok()` cannot
// be constant-folded by CBMC, which makes every state produced by add_edge "symbolic-shaped").
// `build_direct` is validated against real add_node/add_edge histories (a) natively on a few
// hundred concrete histories and (b) by the solver in the `c02_build_*` harnesses (field-by-field
// agreement through rep_inv + alpha), so an error here shows up as a failing check, not as a
// silently wrong pre-state. Precondition: the edge list is admissible for the specs (no self-loop
// unless specs.self_loops, no parallel pair unless specs.multi_edges, endpoints are nodes).
pub(crate) fn build_direct(specs: GraphSpecs, nodes: &[(u8, Option<u8>)], edges: &[(u8, u8, f64)]) -> G {
    let directed = specs.directed;
    let mut g: G = Graph::new(specs);
    let mut i = 0;
    while i < nodes.len() {
        let (x, a) = nodes[i];
        let arc = node(x, a);
        g.nodes_map.insert(Nm(x), i);
        g.nodes_map_rev.insert(i, arc.clone());
        g.nodes_vec.push(arc);
        g.successors_map.insert(i, IntSetT::default());
        g.predecessors_map.insert(i, IntSetT::default());
        g.successors_vec.push(Vec::new());
        g.predecessors_vec.push(Vec::new());
        i += 1;
    }
    let mut k = 0;
    while k < edges.len() {
        let (u, v, w) = edges[k];
        let iu = *g.nodes_map.get(&Nm(u)).unwrap();
        let iv = *g.nodes_map.get(&Nm(v)).unwrap();
        let (ou, ov) = if !directed && u > v { (v, u) } else { (u, v) };
        let (pu, pv) = if !directed && iu > iv { (iv, iu) } else { (iu, iv) };
        let e: Arc<Edge<Nm, u8>> = Arc::new(Edge {
            u: Nm(ou),
            v: Nm(ov),
            attributes: None,
            weight: w,
        });
        let exists = g.edges.contains_key(&(Nm(ou), Nm(ov)));
        g.successors.entry(Nm(u)).or_default().insert(Nm(v));
        g.successors_map.entry(iu).or_default().insert(iv);
        adj_put(&mut g.successors_vec, pu, pv, w, exists);
        if directed {
            g.predecessors.entry(Nm(v)).or_default().insert(Nm(u));
            g.predecessors_map.entry(iv).or_default().insert(iu);
            adj_put(&mut g.predecessors_vec, pv, pu, w, exists);
        } else {
            g.successors.entry(Nm(v)).or_default().insert(Nm(u));
            g.successors_map.entry(iv).or_default().insert(iu);
            adj_put(&mut g.successors_vec, pv, pu, w, exists);
        }
        g.edges.entry((Nm(ou), Nm(ov))).or_default().push(e.clone());
        let inner: &mut IntMapT<usize, Vec<Arc<Edge<Nm, u8>>>> = g.edges_map.entry(pu).or_default();
        inner.entry(pv).or_default().push(e);
        k += 1;
    }
    g
}

fn adj_put(adj: &mut Vec<Vec<AdjacentNode>>, a: usize, b: usize, w: f64, exists: bool) {
    if exists {
        let row = &mut adj[a];
        let mut k = 0;
        while k < row.len() {
            if row[k].node_index == b && w < row[k].weight {
                row[k].weight = w;
            }
            k += 1;
        }
    } else {
        adj[a].push(AdjacentNode::new(b, w));
    }
}

// ------------------------------------------------------------------------------------------
// Shape catalogue shared by the reader harnesses (C02, C04-C06, C08-C12, C15).

pub(crate) struct Shape {
    pub nodes: Vec<(u8, Option<u8>)>,
    pub edges: Vec<(u8, u8, f64)>,
}

/// Shape catalogue. `None` when the shape is not admissible for the kind.
pub(crate) fn shape(directed: bool, multi: bool, s: u8) -> Option<Shape> {
    shape_w(directed, multi, s, false)
}

/// `small`: weights are integers 1..=8 (exact sums) instead of arbitrary f64 (incl. NaN).
pub(crate) fn shape_w(directed: bool, multi: bool, s: u8, small: bool) -> Option<Shape> {
    let a = if crate::vk::any_bool() { Some(crate::vk::any_u8()) } else { None };
    let nodes = vec![(2, a), (0, None), (1, None)];
    let (w1, w2, w3) = if small {
        (crate::vk::any_small_weight(), crate::vk::any_small_weight(), crate::vk::any_small_weight())
    } else {
        (crate::vk::any_f64(), crate::vk::any_f64(), crate::vk::any_f64())
    };
    let edges = match s {
        0 => vec![(2, 0, w1), (0, 1, w2)],
        1 => vec![(1, 0, w1), (2, 2, w2)],
        2 => {
            if !multi {
                return None;
            }
            vec![(2, 0, w1), (0, 2, w2), (2, 0, w3)]
        }
        3 => {
            if !directed && !multi {
                return None;
            }
            vec![(2, 0, w1), (0, 2, w2)]
        }
        4 => vec![],
        5 => vec![(1, 2, w1), (0, 1, w2), (2, 0, w3)],
        _ => {
            // node 2 has the predecessors 0 and 1 and the successor 0: predecessor/successor chains
            // with a duplicate that is not adjacent
            if !directed && !multi {
                return None;
            }
            vec![(0, 2, w1), (1, 2, w2), (2, 0, w3)]
        }
    };
    Some(Shape { nodes, edges })
}

pub(crate) fn specs_of(directed: bool, multi: bool) -> GraphSpecs {
    permissive(directed, multi)
}

pub(crate) fn present(x: u8) -> bool {
    x <= 2
}

pub(crate) fn adjacent(sh: &Shape, x: u8, y: u8, mode: u8) -> bool {
    // mode 0: y is a successor of x (x -> y); 1: predecessor (y -> x); 2: either
    let mut k = 0;
    let mut f = false;
    while k < sh.edges.len() {
        let (a, b, _) = sh.edges[k];
        let s = a == x && b == y;
        let p = a == y && b == x;
        if (mode == 0 && s) || (mode == 1 && p) || (mode == 2 && (s || p)) {
            f = true;
        }
        k += 1;
    }
    f
}


/// Potential-edge catalogue on the nodes [2,0,1] (positions 0,1,2) for the topology-symbolic
/// harnesses: bit k of `mask` selects slot k. Directed: the six ordered pairs, then a self-loop
/// on 1; undirected: the three unordered pairs, then a self-loop on 1.
pub(crate) fn topo_edges(directed: bool, mask: u8, small_weights: bool) -> Vec<(u8, u8, f64)> {
    topo_edges_w(directed, mask, if small_weights { 255 } else { 254 })
}

/// `mode`: 255 = every weight a symbolic integer 1..=8; 254 = every weight 1.0; otherwise only the
/// selected edge with index `mode` (among the selected slots) is symbolic 1..=8 and the others are
/// the constants 2, 3, 4, ... (the solver then decides every value of that one weight, including the
/// exact tie points, while the search order of the rest stays concrete).
pub(crate) fn topo_edges_w(directed: bool, mask: u8, mode: u8) -> Vec<(u8, u8, f64)> {
    let slots: &[(u8, u8)] = if directed {
        &[(2, 0), (0, 1), (1, 2), (0, 2), (1, 0), (2, 1), (1, 1)]
    } else {
        &[(2, 0), (0, 1), (1, 2), (1, 1)]
    };
    let mut out = Vec::with_capacity(8);
    let mut k = 0;
    while k < slots.len() {
        if (mask >> k) & 1 == 1 {
            let idx = out.len() as u8;
            let w = if mode == 255 {
                crate::vk::any_small_weight()
            } else if mode == 254 {
                1.0
            } else if mode == idx {
                crate::vk::any_small_weight()
            } else {
                (2 + idx) as f64
            };
            out.push((slots[k].0, slots[k].1, w));
        }
        k += 1;
    }
    out
}

pub(crate) fn topo_nodes() -> Vec<(u8, Option<u8>)> {
    vec![(2, None), (0, None), (1, None)]
}

/// adjacency over an explicit edge list
pub(crate) fn adj_in(edges: &Vec<(u8, u8, f64)>, x: u8, y: u8, directed: bool) -> bool {
    let mut k = 0;
    let mut f = false;
    while k < edges.len() {
        let (a, b, _) = edges[k];
        if (a == x && b == y) || (!directed && a == y && b == x) {
            f = true;
        }
        k += 1;
    }
    f
}

/// reach[i][j] over the names [2,0,1]: reflexive-transitive closure (Floyd-Warshall, 3 nodes).
pub(crate) fn closure3(edges: &Vec<(u8, u8, f64)>, directed: bool) -> [[bool; 3]; 3] {
    let names = [2u8, 0, 1];
    let mut r = [[false; 3]; 3];
    let mut i = 0;
    while i < 3 {
        let mut j = 0;
        while j < 3 {
            r[i][j] = i == j || adj_in(edges, names[i], names[j], directed);
            j += 1;
        }
        i += 1;
    }
    let mut k = 0;
    while k < 3 {
        let mut i = 0;
        while i < 3 {
            let mut j = 0;
            while j < 3 {
                if r[i][k] && r[k][j] {
                    r[i][j] = true;
                }
                j += 1;
            }
            i += 1;
        }
        k += 1;
    }
    r
}
