//! Reference model and representation-level observations shared by the Graph-level harnesses
//! (child module of `graphrs::graph`, so it can *read* the private indexes; nothing here mutates
//! a Graph). The reference operations are written from the text of property C01, not from
//! creation.rs.
#![allow(dead_code)]
use super::adjacent_node::AdjacentNode;
use super::Graph;
use crate::vk::{same_weight, Nm};
use crate::{Edge, EdgeDedupeStrategy, GraphSpecs, MissingNodeStrategy, Node, SelfLoopsFalseStrategy};
use std::sync::Arc;

pub(crate) type G = Graph<Nm, u8>;

pub(crate) const MAXN: usize = 4;
pub(crate) const MAXE: usize = 4;

/// Abstract graph: ordered node list (name, attribute) and an edge multiset (u, v, weight).
#[derive(Clone, Copy)]
pub(crate) struct RefGraph {
    pub n: usize,
    pub names: [u8; MAXN],
    pub attrs: [Option<u8>; MAXN],
    pub m: usize,
    pub eu: [u8; MAXE],
    pub ev: [u8; MAXE],
    pub ew: [f64; MAXE],
}

#[derive(Clone, Copy, PartialEq, Eq, Debug)]
pub(crate) enum Outcome {
    Ok,
    SelfLoopsFound,
    NodeNotFound,
    DuplicateEdge,
    OtherErr,
}

pub(crate) fn outcome_of(r: &Result<(), crate::Error>) -> Outcome {
    match r {
        Ok(_) => Outcome::Ok,
        Err(e) => match e.kind {
            crate::ErrorKind::SelfLoopsFound => Outcome::SelfLoopsFound,
            crate::ErrorKind::NodeNotFound => Outcome::NodeNotFound,
            crate::ErrorKind::DuplicateEdge => Outcome::DuplicateEdge,
            _ => Outcome::OtherErr,
        },
    }
}

impl RefGraph {
    pub fn empty() -> RefGraph {
        RefGraph {
            n: 0,
            names: [0; MAXN],
            attrs: [None; MAXN],
            m: 0,
            eu: [0; MAXE],
            ev: [0; MAXE],
            ew: [0.0; MAXE],
        }
    }
    pub fn pos(&self, x: u8) -> Option<usize> {
        let mut i = 0;
        while i < MAXN {
            if i < self.n && self.names[i] == x {
                return Some(i);
            }
            i += 1;
        }
        None
    }
    /// add_node: replace attributes in place for an existing name, append otherwise.
    pub fn add_node(&mut self, x: u8, attr: Option<u8>) {
        match self.pos(x) {
            Some(i) => self.attrs[i] = attr,
            None => {
                assert!(self.n < MAXN, "VERIF_BOUND model node capacity");
                self.names[self.n] = x;
                self.attrs[self.n] = attr;
                self.n += 1;
            }
        }
    }
    fn same_pair(directed: bool, a: u8, b: u8, u: u8, v: u8) -> bool {
        (a == u && b == v) || (!directed && a == v && b == u)
    }
    pub fn count_pair(&self, directed: bool, u: u8, v: u8) -> usize {
        let mut c = 0;
        let mut k = 0;
        while k < MAXE {
            if k < self.m && Self::same_pair(directed, self.eu[k], self.ev[k], u, v) {
                c += 1;
            }
            k += 1;
        }
        c
    }
    /// add_edge as property C01 states it.
    pub fn add_edge(&mut self, s: &GraphSpecs, u: u8, v: u8, w: f64) -> Outcome {
        // self-loop policy
        if u == v && !s.self_loops {
            return match s.self_loops_false_strategy {
                SelfLoopsFalseStrategy::Error => Outcome::SelfLoopsFound,
                SelfLoopsFalseStrategy::Drop => Outcome::Ok,
            };
        }
        // missing-node policy
        let missing = self.pos(u).is_none() || self.pos(v).is_none();
        if missing && s.missing_node_strategy == MissingNodeStrategy::Error {
            return Outcome::NodeNotFound;
        }
        // duplicate policy (decided on the state before node creation: a pair with a missing
        // endpoint cannot have an edge)
        let dup = self.count_pair(s.directed, u, v) > 0;
        if dup && !s.multi_edges && s.edge_dedupe_strategy == EdgeDedupeStrategy::Error {
            return Outcome::DuplicateEdge;
        }
        // node creation, source first
        if self.pos(u).is_none() {
            self.add_node(u, None);
        }
        if self.pos(v).is_none() {
            self.add_node(v, None);
        }
        if dup && !s.multi_edges {
            match s.edge_dedupe_strategy {
                EdgeDedupeStrategy::KeepFirst => {}
                _ => {
                    // KeepLast: the new edge replaces the stored one
                    let mut k = 0;
                    while k < MAXE {
                        if k < self.m && Self::same_pair(s.directed, self.eu[k], self.ev[k], u, v) {
                            self.eu[k] = u;
                            self.ev[k] = v;
                            self.ew[k] = w;
                        }
                        k += 1;
                    }
                }
            }
            return Outcome::Ok;
        }
        assert!(self.m < MAXE, "VERIF_BOUND model edge capacity");
        self.eu[self.m] = u;
        self.ev[self.m] = v;
        self.ew[self.m] = w;
        self.m += 1;
        Outcome::Ok
    }

    /// All edges weighted or all edges unweighted (the domain of property C03).
    pub fn uniform_weights(&self) -> bool {
        let mut nan = 0;
        let mut k = 0;
        while k < MAXE {
            if k < self.m && self.ew[k].is_nan() {
                nan += 1;
            }
            k += 1;
        }
        nan == 0 || nan == self.m
    }

    /// Number of model edges equal to (u, v, w) (orientation-insensitive when undirected).
    pub fn count_edge(&self, directed: bool, u: u8, v: u8, w: f64) -> usize {
        let mut c = 0;
        let mut k = 0;
        while k < MAXE {
            if k < self.m
                && Self::same_pair(directed, self.eu[k], self.ev[k], u, v)
                && same_weight(self.ew[k], w)
            {
                c += 1;
            }
            k += 1;
        }
        c
    }

    /// Same ordered node list (names + attributes) and same edge multiset.
    pub fn same_as(&self, o: &RefGraph, directed: bool) -> bool {
        if self.n != o.n || self.m != o.m {
            return false;
        }
        let mut ok = true;
        let mut i = 0;
        while i < MAXN {
            if i < self.n && (self.names[i] != o.names[i] || self.attrs[i] != o.attrs[i]) {
                ok = false;
            }
            i += 1;
        }
        let mut k = 0;
        while k < MAXE {
            if k < self.m {
                let (u, v, w) = (self.eu[k], self.ev[k], self.ew[k]);
                if self.count_edge(directed, u, v, w) != o.count_edge(directed, u, v, w) {
                    ok = false;
                }
            }
            k += 1;
        }
        ok
    }
}

/// Abstraction of a Graph: node list from the position store, edge multiset from the name-keyed
/// edge store (both are what `get_all_nodes` / `get_all_edges` read).
pub(crate) fn alpha(g: &G) -> RefGraph {
    let mut r = RefGraph::empty();
    assert!(g.nodes_vec.len() <= MAXN, "VERIF_BOUND model node capacity");
    let mut i = 0;
    while i < g.nodes_vec.len() {
        r.names[i] = g.nodes_vec[i].name.0;
        r.attrs[i] = g.nodes_vec[i].attributes;
        i += 1;
    }
    r.n = g.nodes_vec.len();
    for (_k, es) in g.edges.iter() {
        let mut j = 0;
        while j < es.len() {
            assert!(r.m < MAXE, "VERIF_BOUND model edge capacity");
            r.eu[r.m] = es[j].u.0;
            r.ev[r.m] = es[j].v.0;
            r.ew[r.m] = es[j].weight;
            r.m += 1;
            j += 1;
        }
    }
    r
}

// ------------------------------------------------------------------------------------------
// Representation invariant: every redundant index agrees with (node list, edge multiset).

fn listed(adj: &Vec<Vec<AdjacentNode>>, i: usize, j: usize) -> (bool, f64) {
    let mut present = false;
    let mut m = f64::NAN;
    if i < adj.len() {
        let row = &adj[i];
        let mut k = 0;
        while k < row.len() {
            if row[k].node_index == j {
                if !present || m.is_nan() || row[k].weight < m {
                    m = row[k].weight;
                }
                present = true;
            }
            k += 1;
        }
    }
    (present, m)
}

/// (exists, min weight, count) of the model edges from name a to name b (either orientation when
/// undirected).
fn model_pair(r: &RefGraph, directed: bool, a: u8, b: u8) -> (bool, f64, usize) {
    let mut c = 0;
    let mut m = f64::NAN;
    let mut k = 0;
    while k < MAXE {
        if k < r.m && RefGraph::same_pair(directed, r.eu[k], r.ev[k], a, b) {
            if c == 0 || m.is_nan() || r.ew[k] < m {
                m = r.ew[k];
            }
            c += 1;
        }
        k += 1;
    }
    (c > 0, m, c)
}

/// C03 only: traversal lists agree with the model `r` (= alpha(g)).
pub(crate) fn traversal_ok(g: &G, r: &RefGraph) -> bool {
    let d = g.specs.directed;
    let uw = r.uniform_weights();
    let mut ok = g.successors_vec.len() == r.n && g.predecessors_vec.len() == r.n;
    let mut i = 0;
    while i < MAXN {
        let mut j = 0;
        while j < MAXN {
            if i < r.n && j < r.n {
                let (ex, mw, _c) = model_pair(r, d, r.names[i], r.names[j]);
                let (sp, sw) = listed(&g.successors_vec, i, j);
                if sp != ex || (ex && uw && !same_weight(sw, mw)) {
                    ok = false;
                }
                let (pp, pw) = listed(&g.predecessors_vec, j, i);
                if d {
                    if pp != ex || (ex && uw && !same_weight(pw, mw)) {
                        ok = false;
                    }
                } else if pp {
                    ok = false;
                }
            }
            j += 1;
        }
        i += 1;
    }
    ok
}

/// Node indexes agree: name->position, position->node, position store.
pub(crate) fn node_indexes_ok(g: &G, r: &RefGraph) -> bool {
    let mut ok = g.nodes_map.len() == r.n && g.nodes_map_rev.len() == r.n && g.nodes_vec.len() == r.n;
    let mut i = 0;
    while i < MAXN {
        if i < r.n {
            match g.nodes_map.get(&Nm(r.names[i])) {
                Some(p) if *p == i => {}
                _ => ok = false,
            }
            match g.nodes_map_rev.get(&i) {
                Some(nd) if nd.name.0 == r.names[i] && nd.attributes == r.attrs[i] => {}
                _ => ok = false,
            }
        }
        i += 1;
    }
    ok
}

/// Both edge stores agree with the model, pair by pair (count, order and weights of parallel
/// edges; canonical orientation by name in the name-keyed store, by position in the other).
pub(crate) fn edge_stores_ok(g: &G, r: &RefGraph) -> bool {
    let d = g.specs.directed;
    let mut ok = true;
    let mut keys = 0;
    let mut i = 0;
    while i < MAXN {
        let mut j = 0;
        while j < MAXN {
            if i < r.n && j < r.n {
                let (a, b) = (r.names[i], r.names[j]);
                let (_ex, _mw, cnt) = model_pair(r, d, a, b);
                // name-keyed store: directed key (a,b); undirected key is name-ordered
                let name_key_is_canonical = d || a <= b;
                let by_name = g.edges.get(&(Nm(a), Nm(b)));
                // position-keyed store: directed (i,j); undirected position-ordered
                let pos_key_is_canonical = d || i <= j;
                let by_pos = match g.edges_map.get(&i) {
                    None => None,
                    Some(m) => m.get(&j),
                };
                if name_key_is_canonical {
                    match by_name {
                        None => {
                            if cnt != 0 {
                                ok = false;
                            }
                        }
                        Some(es) => {
                            keys += 1;
                            if es.len() != cnt || cnt == 0 {
                                ok = false;
                            }
                            if !g.specs.multi_edges && es.len() != 1 {
                                ok = false;
                            }
                            let mut k = 0;
                            while k < es.len() {
                                if !(es[k].u.0 == a && es[k].v.0 == b) {
                                    ok = false;
                                }
                                k += 1;
                            }
                        }
                    }
                } else if by_name.is_some() {
                    ok = false;
                }
                if pos_key_is_canonical {
                    match by_pos {
                        None => {
                            if cnt != 0 {
                                ok = false;
                            }
                        }
                        Some(es) => {
                            if es.len() != cnt || cnt == 0 {
                                ok = false;
                            }
                            // same edges, same order, as the name-keyed store holds for the pair
                            let (ka, kb) = if d || a <= b { (a, b) } else { (b, a) };
                            match g.edges.get(&(Nm(ka), Nm(kb))) {
                                None => ok = false,
                                Some(ns) => {
                                    if ns.len() != es.len() {
                                        ok = false;
                                    } else {
                                        let mut k = 0;
                                        while k < es.len() {
                                            if es[k].u != ns[k].u
                                                || es[k].v != ns[k].v
                                                || !same_weight(es[k].weight, ns[k].weight)
                                            {
                                                ok = false;
                                            }
                                            k += 1;
                                        }
                                    }
                                }
                            }
                        }
                    }
                } else if by_pos.is_some() {
                    ok = false;
                }
            }
            j += 1;
        }
        i += 1;
    }
    // no key outside the node universe
    if g.edges.len() != keys {
        ok = false;
    }
    ok
}

/// Neighbour sets (name-keyed and position-keyed) agree with the model.
pub(crate) fn neighbour_sets_ok(g: &G, r: &RefGraph) -> bool {
    let d = g.specs.directed;
    let mut ok = true;
    let mut i = 0;
    while i < MAXN {
        let mut j = 0;
        while j < MAXN {
            if i < r.n && j < r.n {
                let (a, b) = (r.names[i], r.names[j]);
                let (ex, _mw, _c) = model_pair(r, d, a, b);
                let s_name = match g.successors.get(&Nm(a)) {
                    None => false,
                    Some(s) => s.contains(&Nm(b)),
                };
                let s_pos = match g.successors_map.get(&i) {
                    None => false,
                    Some(s) => s.contains(&j),
                };
                let p_name = match g.predecessors.get(&Nm(b)) {
                    None => false,
                    Some(s) => s.contains(&Nm(a)),
                };
                let p_pos = match g.predecessors_map.get(&j) {
                    None => false,
                    Some(s) => s.contains(&i),
                };
                if s_name != ex || s_pos != ex {
                    ok = false;
                }
                if d {
                    if p_name != ex || p_pos != ex {
                        ok = false;
                    }
                } else if p_name || p_pos {
                    ok = false;
                }
            }
            j += 1;
        }
        i += 1;
    }
    ok
}

/// All redundant indexes agree with the model for the ordered name pair (a, b) -- the O(1) slice of
/// the representation invariant used by the step harnesses (the full O(n^2) form is `rep_inv`).
pub(crate) fn pair_coherent(g: &G, r: &RefGraph, a: u8, b: u8) -> bool {
    pair_coherent_opt(g, r, a, b, r.uniform_weights())
}

/// `with_traversal_weights`: compare the traversal-list weight too (C03's clause is stated for
/// uniformly weighted or uniformly unweighted graphs only; presence is always compared).
pub(crate) fn pair_coherent_opt(g: &G, r: &RefGraph, a: u8, b: u8, with_traversal_weights: bool) -> bool {
    let d = g.specs.directed;
    let (ia, ib) = match (r.pos(a), r.pos(b)) {
        (Some(x), Some(y)) => (x, y),
        _ => return true,
    };
    let (ex, mw, cnt) = model_pair(r, d, a, b);
    let mut ok = true;
    // name-keyed and position-keyed stores
    let (ka, kb) = if d || a <= b { (a, b) } else { (b, a) };
    let (pa, pb) = if d || ia <= ib { (ia, ib) } else { (ib, ia) };
    let by_name = g.edges.get(&(Nm(ka), Nm(kb)));
    let by_pos = match g.edges_map.get(&pa) {
        None => None,
        Some(m) => m.get(&pb),
    };
    match (by_name, by_pos) {
        (None, None) => {
            if cnt != 0 {
                ok = false;
            }
        }
        (Some(x), Some(y)) => {
            if x.len() != cnt || y.len() != cnt || cnt == 0 {
                ok = false;
            } else {
                let mut k = 0;
                while k < x.len() {
                    if x[k].u.0 != ka || x[k].v.0 != kb || y[k].u.0 != ka || y[k].v.0 != kb
                        || !same_weight(x[k].weight, y[k].weight)
                    {
                        ok = false;
                    }
                    k += 1;
                }
            }
        }
        _ => ok = false,
    }
    // neighbour sets
    let s_name = match g.successors.get(&Nm(a)) {
        None => false,
        Some(s) => s.contains(&Nm(b)),
    };
    let s_pos = match g.successors_map.get(&ia) {
        None => false,
        Some(s) => s.contains(&ib),
    };
    let p_name = match g.predecessors.get(&Nm(b)) {
        None => false,
        Some(s) => s.contains(&Nm(a)),
    };
    let p_pos = match g.predecessors_map.get(&ib) {
        None => false,
        Some(s) => s.contains(&ia),
    };
    if s_name != ex || s_pos != ex {
        ok = false;
    }
    if d {
        if p_name != ex || p_pos != ex {
            ok = false;
        }
    } else if p_name || p_pos {
        ok = false;
    }
    // traversal lists
    let (sp, sw) = listed(&g.successors_vec, ia, ib);
    if sp != ex || (ex && with_traversal_weights && !same_weight(sw, mw)) {
        ok = false;
    }
    let (pp, pw) = listed(&g.predecessors_vec, ib, ia);
    if d {
        if pp != ex || (ex && with_traversal_weights && !same_weight(pw, mw)) {
            ok = false;
        }
    } else if pp {
        ok = false;
    }
    ok
}

/// Node indexes agree for one name.
pub(crate) fn node_coherent(g: &G, r: &RefGraph, a: u8) -> bool {
    match r.pos(a) {
        None => g.nodes_map.get(&Nm(a)).is_none(),
        Some(i) => {
            let m1 = match g.nodes_map.get(&Nm(a)) {
                Some(p) => *p == i,
                None => false,
            };
            let m2 = match g.nodes_map_rev.get(&i) {
                Some(nd) => nd.name.0 == a && nd.attributes == r.attrs[i],
                None => false,
            };
            m1 && m2
                && i < g.nodes_vec.len()
                && g.nodes_vec[i].name.0 == a
                && g.nodes_vec[i].attributes == r.attrs[i]
                && g.successors_vec.len() == r.n
                && g.predecessors_vec.len() == r.n
        }
    }
}

/// Full representation invariant w.r.t. r = alpha(g).
pub(crate) fn rep_inv(g: &G, r: &RefGraph) -> bool {
    node_indexes_ok(g, r) && edge_stores_ok(g, r) && neighbour_sets_ok(g, r) && traversal_ok(g, r)
}

// ------------------------------------------------------------------------------------------
// Harness-side construction helpers (real API calls with concrete names).

pub(crate) fn permissive(directed: bool, multi: bool) -> GraphSpecs {
    GraphSpecs {
        directed,
        edge_dedupe_strategy: EdgeDedupeStrategy::KeepLast,
        missing_node_strategy: MissingNodeStrategy::Create,
        multi_edges: multi,
        self_loops: true,
        self_loops_false_strategy: SelfLoopsFalseStrategy::Drop,
    }
}

pub(crate) fn node(x: u8, attr: Option<u8>) -> Arc<Node<Nm, u8>> {
    Arc::new(Node {
        name: Nm(x),
        attributes: attr,
    })
}

pub(crate) fn edge(u: u8, v: u8, w: f64) -> Arc<Edge<Nm, u8>> {
    Edge::with_weight(Nm(u), Nm(v), w)
}
