//! K-ac harnesses for C04 / C08, child module of graphrs::algorithms::shortest_path::dijkstra.
//!
//! The graph topology is a constant per harness (generator-enumerated mask over the potential
//! edges of a 3-node graph), the edge weights are symbolic integers 1..=8 (exact float sums; every
//! tie pattern is reachable), options are symbolic where stated. Oracle: Bellman-Ford + path-count
//! DP over the edge list, written from the property text.
use super::*;
use crate::graph::verif_model::*;
use crate::vk::*;
use crate::{vassert, vcover};

const INF: f64 = f64::MAX;

struct Oracle {
    w: [[f64; 3]; 3],
    dist: [f64; 3],
    npaths: [usize; 3],
}

fn pos_of(name: u8) -> usize {
    match name {
        2 => 0,
        0 => 1,
        _ => 2,
    }
}

fn oracle(edges: &Vec<(u8, u8, f64)>, directed: bool, weighted: bool, src: usize) -> Oracle {
    let mut w = [[INF; 3]; 3];
    let mut k = 0;
    while k < edges.len() {
        let (a, b, wt) = edges[k];
        let c = if weighted { wt } else { 1.0 };
        let (i, j) = (pos_of(a), pos_of(b));
        if c < w[i][j] {
            w[i][j] = c;
        }
        if !directed && c < w[j][i] {
            w[j][i] = c;
        }
        k += 1;
    }
    let mut dist = [INF; 3];
    dist[src] = 0.0;
    let mut round = 0;
    while round < 2 {
        let mut i = 0;
        while i < 3 {
            let mut j = 0;
            while j < 3 {
                if i != j && dist[i] != INF && w[i][j] != INF && dist[i] + w[i][j] < dist[j] {
                    dist[j] = dist[i] + w[i][j];
                }
                j += 1;
            }
            i += 1;
        }
        round += 1;
    }
    // number of shortest paths (positive weights: tight edges form a DAG over <= 3 nodes)
    let mut npaths = [0usize; 3];
    npaths[src] = 1;
    let mut round = 0;
    while round < 2 {
        let mut j = 0;
        while j < 3 {
            if j != src && dist[j] != INF {
                let mut c = 0;
                let mut i = 0;
                while i < 3 {
                    if i != j && dist[i] != INF && w[i][j] != INF && dist[i] + w[i][j] == dist[j] {
                        c += npaths[i];
                    }
                    i += 1;
                }
                npaths[j] = c;
            }
            j += 1;
        }
        round += 1;
    }
    Oracle { w, dist, npaths }
}

fn find<'a>(res: &'a Vec<(usize, ShortestPathInfo<usize>)>, t: usize) -> Option<&'a ShortestPathInfo<usize>> {
    let mut k = 0;
    while k < res.len() {
        if res[k].0 == t {
            return Some(&res[k].1);
        }
        k += 1;
    }
    None
}

fn path_ok(p: &Vec<usize>, o: &Oracle, src: usize, t: usize) -> bool {
    if p.len() == 0 || p[0] != src || p[p.len() - 1] != t {
        return false;
    }
    let mut sum = 0.0;
    let mut k = 1;
    let mut ok = true;
    while k < p.len() {
        let (a, b) = (p[k - 1], p[k]);
        if a > 2 || b > 2 || o.w[a][b] == INF {
            ok = false;
        } else {
            sum += o.w[a][b];
        }
        k += 1;
    }
    ok && sum == o.dist[t]
}

fn same_path(a: &Vec<usize>, b: &Vec<usize>) -> bool {
    if a.len() != b.len() {
        return false;
    }
    let mut k = 0;
    let mut same = true;
    while k < a.len() {
        if a[k] != b[k] {
            same = false;
        }
        k += 1;
    }
    same
}

/// C04: the full algorithm, all paths.
fn c04_all_paths(directed: bool, mask: u8, src: usize, weighted: bool, wmode: u8) {
    let edges = topo_edges_w(directed, mask, wmode);
    let g = build_direct(permissive(directed, false), &topo_nodes(), &edges);
    let o = oracle(&edges, directed, weighted, src);
    let r = dijkstra(&g, weighted, src, None, None, false, true);
    vassert!(r.is_ok(), "dijkstra succeeds on positive weights");
    let res = r.as_ref().unwrap();
    let mut t = 0;
    while t < 3 {
        let info = find(res, t);
        vassert!(info.is_some() == (o.dist[t] != INF), "a node is reported iff it is reachable from the source");
        if let Some(spi) = info {
            vassert!(spi.distance == o.dist[t], "reported distance is the true shortest-path length");
            vassert!(spi.paths.len() == o.npaths[t], "exactly the set of all shortest paths is returned");
            let mut k = 0;
            while k < spi.paths.len() {
                vassert!(path_ok(&spi.paths[k], &o, src, t), "every path starts at the source, ends at the target, follows edges and sums to the distance");
                let mut j = 0;
                while j < k {
                    vassert!(!same_path(&spi.paths[k], &spi.paths[j]), "each shortest path is returned once");
                    j += 1;
                }
                k += 1;
            }
            vcover!(spi.paths.len() == 2, "a tie between two shortest paths");
        }
        t += 1;
    }
    vcover!(true, "reached end");
    core::mem::forget(r);
    core::mem::forget(g);
    core::mem::forget(edges);
}

/// C04/C08: distance-only fast path == full algorithm distances; first_only returns one of the paths.
fn c08_variants(directed: bool, mask: u8, src: usize, weighted: bool, wmode: u8) {
    let edges = topo_edges_w(directed, mask, wmode);
    let g = build_direct(permissive(directed, false), &topo_nodes(), &edges);
    let o = oracle(&edges, directed, weighted, src);
    let basic = dijkstra_basic(&g, weighted, src);
    vassert!(basic.is_ok(), "dijkstra_basic succeeds");
    let first = dijkstra(&g, weighted, src, None, None, true, true);
    vassert!(first.is_ok(), "dijkstra(first_only) succeeds");
    let nopaths = dijkstra(&g, weighted, src, None, None, false, false);
    vassert!(nopaths.is_ok(), "dijkstra(with_paths=false) succeeds");
    let mut t = 0;
    while t < 3 {
        let reach = o.dist[t] != INF;
        let b = find(basic.as_ref().unwrap(), t);
        let f = find(first.as_ref().unwrap(), t);
        let n = find(nopaths.as_ref().unwrap(), t);
        vassert!(b.is_some() == reach && f.is_some() == reach && n.is_some() == reach, "every variant reports exactly the reachable nodes");
        if reach {
            vassert!(b.unwrap().distance == o.dist[t], "fast path distance");
            vassert!(b.unwrap().paths.len() == 0, "fast path returns no paths");
            vassert!(n.unwrap().distance == o.dist[t] && n.unwrap().paths.len() == 0, "with_paths=false changes nothing but leaves paths empty");
            vassert!(f.unwrap().distance == o.dist[t], "first_only distance");
            vassert!(f.unwrap().paths.len() == 1, "first_only returns exactly one path");
            vassert!(path_ok(&f.unwrap().paths[0], &o, src, t), "the first_only path is a shortest path");
        }
        t += 1;
    }
    vassert!(can_use_basic(None::<Nm>, None, false, false), "option dispatch: plain distance query may use the fast path");
    vassert!(!can_use_basic(Some(Nm(0)), None, false, false) && !can_use_basic(None::<Nm>, Some(1.0), false, false)
        && !can_use_basic(None::<Nm>, None, true, false) && !can_use_basic(None::<Nm>, None, false, true), "option dispatch: any option forces the full algorithm");
    vcover!(true, "reached end");
    core::mem::forget(basic);
    core::mem::forget(first);
    core::mem::forget(nopaths);
    core::mem::forget(g);
    core::mem::forget(edges);
}

/// C08: target / cutoff restrict the answer but never change it.
fn c08_target_cutoff(directed: bool, mask: u8, src: usize, weighted: bool, wmode: u8) {
    let edges = topo_edges_w(directed, mask, wmode);
    let g = build_direct(permissive(directed, false), &topo_nodes(), &edges);
    let o = oracle(&edges, directed, weighted, src);
    let tgt = any_below(3) as usize;
    let rt = dijkstra(&g, weighted, src, Some(tgt), None, false, true);
    vassert!(rt.is_ok(), "dijkstra(target) succeeds");
    let res = rt.as_ref().unwrap();
    let info = find(res, tgt);
    vassert!(info.is_some() == (o.dist[tgt] != INF), "the target is reported iff reachable");
    if let Some(spi) = info {
        vassert!(spi.distance == o.dist[tgt], "target distance equals the unrestricted distance");
        vassert!(spi.paths.len() == o.npaths[tgt], "target paths equal the unrestricted paths");
    }
    let mut t = 0;
    while t < 3 {
        if let Some(spi) = find(res, t) {
            vassert!(o.dist[t] != INF && spi.distance == o.dist[t], "other reported nodes are a subset with unchanged values");
        }
        t += 1;
    }
    // cutoff: an integer or half-integer threshold between / on the distance values
    let c2 = any_u8();
    assume(c2 <= 40);
    let cutoff = c2 as f64 / 2.0;
    let rc = dijkstra(&g, weighted, src, None, Some(cutoff), false, true);
    vassert!(rc.is_ok(), "dijkstra(cutoff) succeeds");
    let resc = rc.as_ref().unwrap();
    let mut t = 0;
    while t < 3 {
        let want = o.dist[t] != INF && o.dist[t] <= cutoff;
        let got = find(resc, t);
        vassert!(got.is_some() == want, "a cutoff c yields exactly the entries with distance <= c");
        if let Some(spi) = got {
            vassert!(spi.distance == o.dist[t] && spi.paths.len() == o.npaths[t], "entries under a cutoff are unchanged");
        }
        t += 1;
    }
    vcover!(true, "reached end");
    core::mem::forget(rt);
    core::mem::forget(rc);
    core::mem::forget(g);
    core::mem::forget(edges);
}

// Not registered in MANIFEST.json (C04 / C08 are not applicable: DESIGN.md M11); kept so that the
// measurement can be repeated with `./check C04 --tier quick`.
include!("gen_dijkstra_ac.rs");
