//! Shared harness vocabulary (attached to the staged crate root as `crate::vk`).
//!
//! Compiled in two modes:
//!   * `cfg(kani)`          — symbolic: `any_*` are `kani::any()`, `assume` is `kani::assume`.
//!   * `cfg(verif_replay)`  — native replay of a solver counterexample against the real crate:
//!                            `any_*` pop the recorded byte vectors (Kani concrete playback) from
//!                            the file named by `VERIF_REPLAY_FILE`.
#![allow(dead_code)]

use crate::{EdgeDedupeStrategy, GraphSpecs, MissingNodeStrategy, SelfLoopsFalseStrategy};

/// Node-name type of the harness instantiation `Graph<Nm, u8>`.
#[derive(Clone, Copy, PartialEq, Eq, PartialOrd, Ord, Hash, Debug)]
pub struct Nm(pub u8);
impl std::fmt::Display for Nm {
    fn fmt(&self, f: &mut std::fmt::Formatter<'_>) -> std::fmt::Result {
        write!(f, "{}", self.0)
    }
}

/// Stub for `alloc::fmt::format` (messages are never the subject of a property).
pub fn stub_format(_a: std::fmt::Arguments<'_>) -> String {
    String::new()
}

// ------------------------------------------------------------------------------------------
#[cfg(kani)]
mod imp {
    pub fn begin(_name: &str) {}
    pub fn end() {}
    pub fn any_bool() -> bool {
        kani::any()
    }
    pub fn any_u8() -> u8 {
        kani::any()
    }
    pub fn any_i32() -> i32 {
        kani::any()
    }
    pub fn any_u32() -> u32 {
        kani::any()
    }
    pub fn any_u64() -> u64 {
        kani::any()
    }
    pub fn any_usize() -> usize {
        kani::any()
    }
    pub fn any_f64() -> f64 {
        kani::any()
    }
    pub fn assume(b: bool) {
        kani::assume(b)
    }
}

#[cfg(not(kani))]
mod imp {
    use std::cell::RefCell;
    thread_local! {
        static VALS: RefCell<Vec<Vec<u8>>> = RefCell::new(Vec::new());
        static POS: RefCell<usize> = RefCell::new(0);
    }
    pub fn begin(name: &str) {
        let path = std::env::var("VERIF_REPLAY_FILE").expect("VERIF_REPLAY_FILE not set");
        let text = std::fs::read_to_string(&path).expect("cannot read replay file");
        // format: one line per value, space separated decimal bytes; '#' comments
        let mut v = Vec::new();
        for line in text.lines() {
            let line = line.trim();
            if line.is_empty() || line.starts_with('#') {
                continue;
            }
            v.push(
                line.split_whitespace()
                    .map(|b| b.parse::<u8>().expect("bad byte"))
                    .collect::<Vec<u8>>(),
            );
        }
        VALS.with(|c| *c.borrow_mut() = v);
        POS.with(|c| *c.borrow_mut() = 0);
        eprintln!("VERIF_REPLAY_BEGIN {}", name);
    }
    pub fn end() {
        eprintln!("VERIF_REPLAY_END");
    }
    fn next(n: usize) -> Vec<u8> {
        let i = POS.with(|c| {
            let mut p = c.borrow_mut();
            *p += 1;
            *p - 1
        });
        VALS.with(|c| {
            let v = c.borrow();
            if i >= v.len() {
                // Values past the end of the recording were unconstrained in the trace. The filler byte
                // is 0 unless VERIF_REPLAY_FILL is set (the non-termination probe uses 1: small valid
                // weights, `true` flags).
                let fill = std::env::var("VERIF_REPLAY_FILL").ok().and_then(|s| s.parse::<u8>().ok()).unwrap_or(0);
                let mut out = vec![0u8; n];
                out[0] = fill;
                return out;
            }
            if v[i].len() != n {
                eprintln!("VERIF_REPLAY_DESYNC at value {}: have {} bytes, want {}", i, v[i].len(), n);
                std::process::exit(3);
            }
            v[i].clone()
        })
    }
    pub fn any_bool() -> bool {
        let b = next(1)[0];
        if b >= 2 {
            assume(false);
        }
        b == 1
    }
    pub fn any_u8() -> u8 {
        next(1)[0]
    }
    pub fn any_i32() -> i32 {
        let b = next(4);
        i32::from_le_bytes([b[0], b[1], b[2], b[3]])
    }
    pub fn any_u32() -> u32 {
        let b = next(4);
        u32::from_le_bytes([b[0], b[1], b[2], b[3]])
    }
    pub fn any_u64() -> u64 {
        let b = next(8);
        let mut a = [0u8; 8];
        a.copy_from_slice(&b);
        u64::from_le_bytes(a)
    }
    pub fn any_usize() -> usize {
        any_u64() as usize
    }
    pub fn any_f64() -> f64 {
        f64::from_bits(any_u64())
    }
    pub fn assume(b: bool) {
        if !b {
            eprintln!("VERIF_REPLAY_ASSUME_FAILED");
            std::process::exit(4);
        }
    }
}

pub use imp::*;

/// `vcover!(cond, "label")` — vacuity / reachability witness.
#[macro_export]
macro_rules! vcover {
    ($c:expr, $m:literal) => {{
        #[cfg(kani)]
        kani::cover!($c, $m);
        #[cfg(not(kani))]
        {
            if $c {
                eprintln!("VERIF_COVER_HIT {}", $m);
            }
        }
    }};
}

/// `vassert!(cond, "label")` — assertion with a twin cover of its negation, so that the solver's
/// counterexample can always be extracted through Kani's concrete playback of the cover.
#[macro_export]
macro_rules! vassert {
    ($c:expr, $m:literal) => {{
        let verif_c: bool = $c;
        #[cfg(kani)]
        kani::cover!(!verif_c, $m);
        assert!(verif_c, $m);
    }};
}

/// Declares a harness: a Kani proof under `cfg(kani)`, a `#[test]` under `cfg(verif_replay)`.
#[macro_export]
macro_rules! vharness {
    (unwind = $u:literal; fn $name:ident() $body:block) => {
        #[cfg_attr(
            kani,
            kani::proof,
            kani::unwind($u),
            kani::stub(alloc::fmt::format, crate::vk::stub_format)
        )]
        #[cfg_attr(all(feature = "verif_replay", not(kani)), test)]
        #[allow(dead_code)]
        fn $name() {
            crate::vk::begin(stringify!($name));
            let _: () = $body;
            crate::vk::end();
        }
    };
}

/// Index in 0..n, as a usize.
pub fn any_below(n: u8) -> u8 {
    let x = any_u8();
    assume(x < n);
    x
}

pub fn dedupe_of(x: u8) -> EdgeDedupeStrategy {
    match x {
        0 => EdgeDedupeStrategy::Error,
        1 => EdgeDedupeStrategy::KeepFirst,
        _ => EdgeDedupeStrategy::KeepLast,
    }
}

/// All 96 GraphSpecs combinations (every field symbolic).
pub fn any_specs() -> GraphSpecs {
    any_specs_kind(any_bool(), any_bool())
}

/// The 24 combinations for a fixed (directed, multi_edges) kind.
pub fn any_specs_kind(directed: bool, multi_edges: bool) -> GraphSpecs {
    GraphSpecs {
        directed,
        edge_dedupe_strategy: dedupe_of(any_below(3)),
        missing_node_strategy: if any_bool() {
            MissingNodeStrategy::Create
        } else {
            MissingNodeStrategy::Error
        },
        multi_edges,
        self_loops: any_bool(),
        self_loops_false_strategy: if any_bool() {
            SelfLoopsFalseStrategy::Error
        } else {
            SelfLoopsFalseStrategy::Drop
        },
    }
}

/// The 8 combinations left for a fixed (directed, multi_edges, dedupe strategy): measured: a
/// symbolic dedupe strategy alone multiplies the formula 200x (60 M clauses), the other policy
/// fields are cheap, so the generator case-splits the dedupe strategy.
pub fn any_specs_kind_dd(directed: bool, multi_edges: bool, dd: u8) -> GraphSpecs {
    any_specs_kind_dd_mm(directed, multi_edges, dd, 2)
}

/// `mm`: 0 = Create, 1 = Error, 2 = symbolic. The generator fixes the missing-node strategy when
/// the operation names a node that is not in the pre-state (a conditional add_node makes the
/// container shapes symbolic, which costs minutes and > 20 GB in CBMC).
pub fn any_specs_kind_dd_mm(directed: bool, multi_edges: bool, dd: u8, mm: u8) -> GraphSpecs {
    any_specs_kind_dd_mm_sl(directed, multi_edges, dd, mm, 0)
}

/// `sl`: 0 = self-loop policy symbolic, 1 = self-loops allowed, 2 = disallowed + Error,
/// 3 = disallowed + Drop. The generator fixes it when the operation under test is a self-loop (a
/// conditionally stored self-loop makes the container shapes symbolic: measured > 24 GB).
pub fn any_specs_kind_dd_mm_sl(directed: bool, multi_edges: bool, dd: u8, mm: u8, sl: u8) -> GraphSpecs {
    let create = if mm == 2 { any_bool() } else { mm == 0 };
    let (self_loops, sl_error) = match sl {
        0 => (any_bool(), any_bool()),
        1 => (true, any_bool()),
        2 => (false, true),
        _ => (false, false),
    };
    GraphSpecs {
        directed,
        edge_dedupe_strategy: dedupe_of(dd),
        missing_node_strategy: if create {
            MissingNodeStrategy::Create
        } else {
            MissingNodeStrategy::Error
        },
        multi_edges,
        self_loops,
        self_loops_false_strategy: if sl_error {
            SelfLoopsFalseStrategy::Error
        } else {
            SelfLoopsFalseStrategy::Drop
        },
    }
}

/// Bitwise f64 equality that identifies all NaNs (NaN == "unweighted").
pub fn same_weight(a: f64, b: f64) -> bool {
    (a.is_nan() && b.is_nan()) || a.to_bits() == b.to_bits()
}

/// Small positive integer weight 1..=8 as f64 (exact sums).
pub fn any_small_weight() -> f64 {
    let x = any_u8();
    assume(x >= 1 && x <= 8);
    x as f64
}
