//! K-ac harnesses for C05, child module of graphrs::algorithms::centrality::betweenness.
//!
//! What is decided here: (1) the Brandes accumulation stage for an arbitrary previous betweenness
//! vector on every shortest-path DAG over 3 nodes, (2) the rescaling rules for every node count and
//! flag combination, (3) the unweighted single-source stage (BFS) and the public function in hop-
//! count mode on generator-enumerated topologies with the `normalized` flag symbolic, against the
//! definition (sum over ordered pairs of the fraction of shortest paths through v). The weighted
//! search stage (BinaryHeap Dijkstra) is outside: one symbolic weight already exceeds 20 minutes
//! of symbolic execution (DESIGN.md section 2).
use super::*;
use crate::graph::verif_model::*;
use crate::vk::*;
use crate::{vassert, vcover};

const NAMES: [u8; 3] = [2, 0, 1];
const INF: usize = 99;

fn close(a: f64, b: f64) -> bool {
    let d = if a > b { a - b } else { b - a };
    d <= 1e-12
}

/// hop distances and shortest-path counts between positions
fn hop_oracle(edges: &Vec<(u8, u8, f64)>, directed: bool) -> ([[usize; 3]; 3], [[f64; 3]; 3]) {
    let mut adj = [[false; 3]; 3];
    let mut i = 0;
    while i < 3 {
        let mut j = 0;
        while j < 3 {
            adj[i][j] = i != j && adj_in(edges, NAMES[i], NAMES[j], directed);
            j += 1;
        }
        i += 1;
    }
    let mut d = [[INF; 3]; 3];
    let mut c = [[0.0f64; 3]; 3];
    let mut s = 0;
    while s < 3 {
        d[s][s] = 0;
        c[s][s] = 1.0;
        let mut t = 0;
        while t < 3 {
            if t != s && adj[s][t] {
                d[s][t] = 1;
                c[s][t] = 1.0;
            }
            t += 1;
        }
        let mut t = 0;
        while t < 3 {
            if t != s && d[s][t] == INF {
                let m = 3 - s - t; // the third node
                if adj[s][m] && adj[m][t] {
                    d[s][t] = 2;
                    c[s][t] = 1.0;
                }
            }
            t += 1;
        }
        s += 1;
    }
    (d, c)
}

/// Definition: sum over ordered pairs (s,t), s != v != t, of sigma_st(v) / sigma_st.
fn betweenness_def(d: &[[usize; 3]; 3], c: &[[f64; 3]; 3], v: usize) -> f64 {
    let mut b = 0.0;
    let mut s = 0;
    while s < 3 {
        let mut t = 0;
        while t < 3 {
            if s != v && t != v && s != t && d[s][t] != INF && d[s][v] != INF && d[v][t] != INF && d[s][v] + d[v][t] == d[s][t] {
                b += c[s][v] * c[v][t] / c[s][t];
            }
            t += 1;
        }
        s += 1;
    }
    b
}

/// (1) accumulation stage on a constant DAG (source position 0) with an arbitrary previous vector.
/// dag bits: 0 -> node1 has pred 0; 1 -> node2 has pred 0; 2 -> node2 has pred 1.
fn c05_accumulate(dag: u8) {
    let e01 = dag & 1 == 1;
    let e02 = dag & 2 == 2;
    let e12 = dag & 4 == 4 && e01;
    let sigma1 = if e01 { 1.0 } else { 0.0 };
    let sigma2 = (if e02 { 1.0 } else { 0.0 }) + (if e12 { sigma1 } else { 0.0 });
    // both predecessors of node 2 at once means 0->2 and 0->1->2 tie: only consistent when they have
    // the same length, i.e. in a weighted search; the accumulation must handle it all the same.
    let mut s_order = vec![0usize];
    if e01 {
        s_order.push(1);
    }
    if e02 || e12 {
        s_order.push(2);
    }
    let mut p2 = vec![];
    if e02 {
        p2.push(0usize);
    }
    if e12 {
        p2.push(1usize);
    }
    let res = SingleSourceResults {
        S: s_order,
        P: vec![vec![], if e01 { vec![0usize] } else { vec![] }, p2],
        sigma: vec![1.0, sigma1, sigma2],
        source: 0,
    };
    let (b0, b1, b2) = (any_f64(), any_f64(), any_f64());
    assume(b0.is_finite() && b1.is_finite() && b2.is_finite());
    let mut bt = vec![b0, b1, b2];
    accumulate_betweenness(&mut bt, &res);
    // pair-dependency by definition: delta[2] = 0; delta[1] = (sigma1/sigma2)(1+delta2) if 1 in P[2]
    let d2 = 0.0;
    let d1 = if e12 { sigma1 / sigma2 * (1.0 + d2) } else { 0.0 };
    vassert!(bt[0].to_bits() == b0.to_bits(), "the source never counts");
    if e01 {
        vassert!(bt[1] == b1 + d1, "dependency of the source on an inner node is added");
    } else {
        vassert!(bt[1].to_bits() == b1.to_bits(), "unreachable nodes contribute nothing");
    }
    if e02 || e12 {
        vassert!(bt[2] == b2 + d2, "endpoints never count");
    } else {
        vassert!(bt[2].to_bits() == b2.to_bits(), "unreachable nodes contribute nothing");
    }
    vcover!(e12 && e02, "tie between two shortest paths");
    vcover!(true, "reached end");
    core::mem::forget(bt);
    core::mem::forget(res);
}

/// (2) rescaling: every n <= 6, both flags, arbitrary finite values.
fn c05_rescale(n: usize) {
    let normalized = any_bool();
    let directed = any_bool();
    let vals = [any_f64(), any_f64(), any_f64(), any_f64(), any_f64(), any_f64()];
    let mut v: Vec<f64> = Vec::with_capacity(6);
    let mut i = 0;
    while i < 6 {
        if i < n {
            assume(vals[i].is_finite());
            v.push(vals[i]);
        }
        i += 1;
    }
    rescale(&mut v, n, normalized, directed);
    let mut i = 0;
    while i < 6 {
        if i < n {
            let want = if normalized {
                if n > 2 { vals[i] * (1.0 / ((n as f64 - 1.0) * (n as f64 - 2.0))) } else { vals[i] }
            } else if directed {
                vals[i]
            } else {
                vals[i] * 0.5
            };
            vassert!(v[i] == want || (v[i].is_nan() && want.is_nan()), "raw value halved on undirected graphs; normalized value divided by (n-1)(n-2) when n > 2");
        }
        i += 1;
    }
    vcover!(normalized, "normalized");
    vcover!(!normalized && !directed, "halved");
    core::mem::forget(v);
}

fn c05_get_scale() {
    let n = any_usize();
    assume(n <= 1000);
    let normalized = any_bool();
    let directed = any_bool();
    let s = get_scale(n, normalized, directed);
    if normalized {
        if n <= 2 {
            vassert!(s.is_none(), "no normalisation for n <= 2");
        } else {
            vassert!(s == Some(1.0 / ((n as f64 - 1.0) * (n as f64 - 2.0))), "normalisation factor 1/((n-1)(n-2))");
        }
    } else if directed {
        vassert!(s.is_none(), "directed raw values are not rescaled");
    } else {
        vassert!(s == Some(0.5), "undirected raw values are halved");
    }
    vcover!(s.is_none(), "no scale");
}

/// (3) BFS stage + public function (hop counts) on a constant topology; `normalized` symbolic.
fn c05_public_unweighted(directed: bool, mask: u8) {
    let edges = topo_edges(directed, mask, false);
    let g = build_direct(permissive(directed, false), &topo_nodes(), &edges);
    let (d, c) = hop_oracle(&edges, directed);
    // single-source stage
    let mut s = 0;
    while s < 3 {
        let r = bfs(&g, s);
        vassert!(r.source == s && r.S.len() >= 1 && r.S[0] == s, "the search order starts with the source");
        let mut t = 0;
        while t < 3 {
            let reach = d[s][t] != INF;
            let mut cnt = 0;
            let mut k = 0;
            while k < r.S.len() {
                if r.S[k] == t {
                    cnt += 1;
                }
                k += 1;
            }
            vassert!(cnt == if reach { 1 } else { 0 }, "S lists exactly the reachable nodes, each once");
            vassert!(r.sigma[t] == if reach { c[s][t] } else { 0.0 }, "sigma is the number of shortest paths");
            let mut k = 0;
            while k < r.P[t].len() {
                let p = r.P[t][k];
                vassert!(d[s][p] != INF && d[s][p] + 1 == d[s][t], "P lists predecessors on shortest paths only");
                k += 1;
            }
            t += 1;
        }
        let mut k = 1;
        while k < r.S.len() {
            vassert!(d[s][r.S[k - 1]] <= d[s][r.S[k]], "S is ordered by non-decreasing distance");
            k += 1;
        }
        core::mem::forget(r);
        s += 1;
    }
    // betweenness_centrality itself cannot be compiled by Kani 0.68 (its body contains the rayon
    // branch, whose catch_unwind intrinsic crashes kani-compiler). The sequential branch is the
    // composition below of the three real kernels: bfs per source, accumulate_betweenness, rescale.
    let normalized = any_bool();
    let mut bt = vec![0.0; g.number_of_nodes()];
    let mut src = 0;
    while src < 3 {
        let r = bfs(&g, src);
        accumulate_betweenness(&mut bt, &r);
        core::mem::forget(r);
        src += 1;
    }
    rescale(&mut bt, 3, normalized, directed);
    vassert!(bt.len() == 3, "exactly one entry per node");
    let mut v = 0;
    while v < 3 {
        let mut want = betweenness_def(&d, &c, v);
        if normalized {
            want = want * (1.0 / 2.0); // (n-1)(n-2) = 2 for n = 3
        } else if !directed {
            want = want * 0.5;
        }
        vassert!(close(bt[v], want), "betweenness equals its definition");
        v += 1;
    }
    core::mem::forget(bt);
    vcover!(normalized, "normalized");
    vcover!(!normalized, "raw");
    core::mem::forget(g);
    core::mem::forget(edges);
}

crate::vharness! { unwind = 4; fn c05_get_scale_all() { c05_get_scale() } }
include!("gen_betweenness_ac.rs");
