//! K-real harnesses, child module of graphrs::graph::creation (real std containers; only code
//! that performs no hash-table operation is executed).
use super::*;
use crate::vk::*;
use crate::vcover;

// add_to_adjacency_vec on an arbitrary 2-entry list: the entry for an existing pair keeps the
// smaller of (listed weight, new weight); NaN never replaces; other entries untouched.
crate::vharness! { unwind = 4; fn c03_kernel_adjvec_existing() {
    let w0 = any_f64();
    let w1 = any_f64();
    let mut adj: Vec<Vec<AdjacentNode>> = vec![
        vec![AdjacentNode::new(1, w0), AdjacentNode::new(2, w1)],
        vec![],
        vec![],
    ];
    let v = any_below(3) as usize;
    assume(v == 1 || v == 2);
    let w = any_f64();
    add_to_adjacency_vec(&mut adj, 0, v, w, true);
    assert!(adj[0].len() == 2 && adj[1].len() == 0 && adj[2].len() == 0);
    let old = if v == 1 { w0 } else { w1 };
    let other_old = if v == 1 { w1 } else { w0 };
    let got = adj[0][v - 1].weight;
    if w < old {
        assert!(got == w);
    } else {
        assert!(got.to_bits() == old.to_bits());
    }
    assert!(adj[0][v - 1].node_index == v);
    assert!(adj[0][2 - v].weight.to_bits() == other_old.to_bits());
    vcover!(w < old, "replaced");
    vcover!(!(w < old), "kept");
    core::mem::forget(adj);
}}

// ... and appends exactly one entry for a new pair.
crate::vharness! { unwind = 4; fn c03_kernel_adjvec_new() {
    let w0 = any_f64();
    let mut adj: Vec<Vec<AdjacentNode>> = vec![vec![AdjacentNode::new(1, w0)], vec![], vec![]];
    let u = any_below(3) as usize;
    let v = any_below(3) as usize;
    assume(!(u == 0 && v == 1));
    let w = any_f64();
    add_to_adjacency_vec(&mut adj, u, v, w, false);
    let total = adj[0].len() + adj[1].len() + adj[2].len();
    assert!(total == 2);
    let last = adj[u].len() - 1;
    assert!(adj[u][last].node_index == v);
    assert!(adj[u][last].weight.to_bits() == w.to_bits());
    assert!(adj[0][0].node_index == 1 && adj[0][0].weight.to_bits() == w0.to_bits());
    vcover!(u == 0, "same row");
    vcover!(u != 0, "other row");
    core::mem::forget(adj);
}}
