//! K-ac harnesses for C11 (and the C20 clauses about the cluster functions), child module of
//! graphrs::algorithms::cluster. Topologies are generator-enumerated constants on the nodes
//! [2,0,1] (insertion order differs from name order); oracles are brute-force counts.
use super::*;
use crate::graph::verif_model::*;
use crate::vk::*;
use crate::{vassert, vcover};
use crate::ErrorKind;

fn is_wrong_method<T>(r: &Result<T, crate::Error>) -> bool {
    match r {
        Err(e) => matches!(e.kind, ErrorKind::WrongMethod),
        Ok(_) => false,
    }
}

fn close(a: f64, b: f64) -> bool {
    let d = if a > b { a - b } else { b - a };
    d <= 1e-12
}

const NAMES: [u8; 3] = [2, 0, 1];

/// a[i][j] = 1 iff there is an edge i -> j between *distinct* nodes (self-loops never count)
fn adj_matrix(edges: &Vec<(u8, u8, f64)>, directed: bool) -> [[usize; 3]; 3] {
    let mut a = [[0usize; 3]; 3];
    let mut i = 0;
    while i < 3 {
        let mut j = 0;
        while j < 3 {
            if i != j && adj_in(edges, NAMES[i], NAMES[j], directed) {
                a[i][j] = 1;
            }
            j += 1;
        }
        i += 1;
    }
    a
}

/// Undirected: triangles through i, degree (without self-loop).
fn und_tri_deg(a: &[[usize; 3]; 3], i: usize) -> (usize, usize) {
    let (j, k) = ((i + 1) % 3, (i + 2) % 3);
    let d = a[i][j] + a[i][k];
    let t = if a[i][j] == 1 && a[i][k] == 1 && a[j][k] == 1 { 1 } else { 0 };
    (t, d)
}

fn c11_undirected(mask: u8, subset: u8) {
    let edges = topo_edges(false, mask, false);
    let g = build_direct(permissive(false, false), &topo_nodes(), &edges);
    let a = adj_matrix(&edges, false);
    // subset: 0 = None (all nodes), 1..=3 = the single node at position subset-1, 4 = nodes at positions 0 and 2
    let sel: Vec<Nm> = match subset {
        0 => vec![],
        1 => vec![Nm(NAMES[0])],
        2 => vec![Nm(NAMES[1])],
        3 => vec![Nm(NAMES[2])],
        _ => vec![Nm(NAMES[0]), Nm(NAMES[2])],
    };
    let arg: Option<&[Nm]> = if subset == 0 { None } else { Some(&sel) };
    let selected = |i: usize| subset == 0 || sel.iter().any(|n| n.0 == NAMES[i]);
    let nsel = if subset == 0 { 3 } else { sel.len() };

    let tri = triangles(&g, arg);
    vassert!(tri.is_ok(), "triangles succeeds on an undirected single-edge graph");
    let cl = clustering(&g, false, arg);
    vassert!(cl.is_ok(), "clustering succeeds");
    let gd = generalized_degree(&g, arg);
    vassert!(gd.is_ok(), "generalized_degree succeeds");
    vassert!(tri.as_ref().unwrap().len() == nsel && cl.as_ref().unwrap().len() == nsel && gd.as_ref().unwrap().len() == nsel,
        "restricting to a subset returns values for exactly those nodes");
    let mut sum_c = 0.0;
    let mut i = 0;
    while i < 3 {
        if selected(i) {
            let (t, d) = und_tri_deg(&a, i);
            vassert!(tri.as_ref().unwrap().get(&Nm(NAMES[i])) == Some(&t), "triangles(v) is the number of triangles through v");
            let want_c = if d < 2 { 0.0 } else { t as f64 / ((d * (d - 1)) as f64 / 2.0) };
            let got_c = cl.as_ref().unwrap().get(&Nm(NAMES[i]));
            vassert!(got_c.is_some() && close(*got_c.unwrap(), want_c), "clustering(v) = triangles through v / neighbour pairs");
            vassert!(*got_c.unwrap() >= 0.0 && *got_c.unwrap() <= 1.0, "coefficient in [0,1]");
            sum_c += want_c;
            // generalized degree: histogram of per-edge triangle counts
            let h = gd.as_ref().unwrap().get(&Nm(NAMES[i]));
            vassert!(h.is_some(), "generalized_degree has an entry for the node");
            let with_tri = if t == 1 { 2 } else { 0 };
            let without = d - with_tri;
            let h = h.unwrap();
            let c1 = h.get(&1).copied().unwrap_or(0);
            let c0 = h.get(&0).copied().unwrap_or(0);
            vassert!(c1 == with_tri && c0 == without, "generalized_degree(v) is the histogram of per-edge triangle counts");
        }
        i += 1;
    }
    let avg = average_clustering(&g, false, arg, true);
    vassert!(avg.is_ok() && close(*avg.as_ref().unwrap(), sum_c / nsel as f64), "average_clustering is the mean of the counted coefficients");
    if subset == 0 {
        let tr = transitivity(&g);
        vassert!(tr.is_ok(), "transitivity succeeds");
        let mut t3 = 0;
        let mut triples = 0;
        let mut i = 0;
        while i < 3 {
            let (t, d) = und_tri_deg(&a, i);
            t3 += t;
            if d >= 2 {
                triples += d * (d - 1) / 2;
            }
            i += 1;
        }
        let want = if triples == 0 { 0.0 } else { t3 as f64 / triples as f64 };
        vassert!(close(*tr.as_ref().unwrap(), want), "transitivity = 3 x triangles / connected triples");
        core::mem::forget(tr);
    }
    let sq = square_clustering(&g, arg);
    let mut i = 0;
    while i < 3 {
        if selected(i) {
            let v = sq.get(&Nm(NAMES[i]));
            vassert!(v.is_some() && *v.unwrap() == 0.0, "square_clustering is 0 when no square exists (3 nodes)");
        }
        i += 1;
    }
    vassert!(sq.len() == nsel, "square_clustering returns values for exactly the requested nodes");
    vcover!(true, "reached end");
    core::mem::forget(sq);
    core::mem::forget(avg);
    core::mem::forget(tri);
    core::mem::forget(cl);
    core::mem::forget(gd);
    core::mem::forget(sel);
    core::mem::forget(g);
    core::mem::forget(edges);
}

/// Fagiolo's directed clustering coefficient.
fn c11_directed(mask: u8, subset: u8) {
    let edges = topo_edges(true, mask, false);
    let g = build_direct(permissive(true, false), &topo_nodes(), &edges);
    let a = adj_matrix(&edges, true);
    let sel: Vec<Nm> = match subset {
        0 => vec![],
        1 => vec![Nm(NAMES[0])],
        _ => vec![Nm(NAMES[1]), Nm(NAMES[2])],
    };
    let arg: Option<&[Nm]> = if subset == 0 { None } else { Some(&sel) };
    let selected = |i: usize| subset == 0 || sel.iter().any(|n| n.0 == NAMES[i]);
    let nsel = if subset == 0 { 3 } else { sel.len() };
    let cl = clustering(&g, false, arg);
    vassert!(cl.is_ok(), "clustering succeeds on a directed single-edge graph");
    vassert!(cl.as_ref().unwrap().len() == nsel, "restricting to a subset returns values for exactly those nodes");
    let mut i = 0;
    while i < 3 {
        if selected(i) {
            let (j, k) = ((i + 1) % 3, (i + 2) % 3);
            // T = sum over ordered (j,k), j != k, of (a_ij + a_ji)(a_jk + a_kj)(a_ki + a_ik) / 2
            let t2 = (a[i][j] + a[j][i]) * (a[j][k] + a[k][j]) * (a[k][i] + a[i][k]) * 2;
            let dtot = a[i][j] + a[j][i] + a[i][k] + a[k][i];
            let dbi = a[i][j] * a[j][i] + a[i][k] * a[k][i];
            let den = dtot * (if dtot > 0 { dtot - 1 } else { 0 });
            let den = if den >= 2 * dbi { den - 2 * dbi } else { 0 };
            let want = if den == 0 { 0.0 } else { (t2 as f64 / 2.0) / den as f64 };
            let got = cl.as_ref().unwrap().get(&Nm(NAMES[i]));
            vassert!(got.is_some() && close(*got.unwrap(), want), "directed clustering is Fagiolo's coefficient");
            vassert!(*got.unwrap() >= 0.0 && *got.unwrap() <= 1.0, "coefficient in [0,1]");
        }
        i += 1;
    }
    let tri = triangles(&g, None);
    let tr = transitivity(&g);
    let gd = generalized_degree(&g, None);
    vassert!(is_wrong_method(&tri) && is_wrong_method(&tr) && is_wrong_method(&gd), "undirected-only functions refuse directed graphs with WrongMethod");
    vcover!(true, "reached end");
    core::mem::forget(tri);
    core::mem::forget(tr);
    core::mem::forget(gd);
    core::mem::forget(cl);
    core::mem::forget(sel);
    core::mem::forget(g);
    core::mem::forget(edges);
}

/// Smallest graph with a self-loop on a neighbour: self-loops never count.
fn c11_undirected_small() {
    let edges: Vec<(u8, u8, f64)> = vec![(2, 0, 1.0), (0, 0, 1.0)];
    let nodes: Vec<(u8, Option<u8>)> = vec![(2, None), (0, None)];
    let g = build_direct(permissive(false, false), &nodes, &edges);
    let tri = triangles(&g, None);
    let cl = clustering(&g, false, None);
    let gd = generalized_degree(&g, None);
    let tr = transitivity(&g);
    vassert!(tri.is_ok() && cl.is_ok() && gd.is_ok() && tr.is_ok(), "the cluster functions succeed");
    for x in [2u8, 0].iter() {
        vassert!(tri.as_ref().unwrap().get(&Nm(*x)) == Some(&0), "a self-loop is not a triangle");
        let c = cl.as_ref().unwrap().get(&Nm(*x));
        vassert!(c.is_some() && *c.unwrap() == 0.0, "clustering is 0 without triangles");
        let h = gd.as_ref().unwrap().get(&Nm(*x)).unwrap();
        vassert!(h.get(&1).copied().unwrap_or(0) == 0 && h.get(&0).copied().unwrap_or(0) == 1, "generalized_degree: one edge without triangles");
    }
    vassert!(*tr.as_ref().unwrap() == 0.0, "transitivity is 0 without triangles");
    vcover!(true, "reached end");
    core::mem::forget((tri, cl, gd, tr));
    core::mem::forget(g);
}

/// Multi-edge graphs are refused.
fn c11_multi_refused(directed: bool) {
    let edges = topo_edges(directed, 0b0011, false);
    let g = build_direct(permissive(directed, true), &topo_nodes(), &edges);
    let c = clustering(&g, false, None);
    let a = average_clustering(&g, false, None, true);
    vassert!(is_wrong_method(&c) && is_wrong_method(&a), "clustering refuses multi-edge graphs with WrongMethod");
    if !directed {
        let t = triangles(&g, None);
        let tr = transitivity(&g);
        let gd = generalized_degree(&g, None);
        vassert!(is_wrong_method(&t) && is_wrong_method(&tr) && is_wrong_method(&gd), "triangle functions refuse multi-edge graphs with WrongMethod");
        core::mem::forget(t);
        core::mem::forget(tr);
        core::mem::forget(gd);
    }
    vcover!(true, "reached end");
    core::mem::forget(c);
    core::mem::forget(a);
    core::mem::forget(g);
    core::mem::forget(edges);
}

include!("gen_cluster_ac.rs");
