//! K-real harnesses for C16, child module of graphrs::generators::random.
//!
//! The skipping loops run for real; the environment is stubbed by contract:
//!   * the RNG returns arbitrary u64/u32 values (every seed, every stream);
//!   * `f64::ln` (nondeterministic in Kani) is replaced by its sign contract on (0, 1];
//!   * `Graph::add_node` is a no-op and `Graph::add_edge_tuples` records the pair list
//!     (the real hash-table code is covered by C01; here the subject is the pair sequence).
use super::*;
use crate::vk::*;
use crate::{vassert, vcover};
use rand::RngCore;

struct SymRng;
impl RngCore for SymRng {
    fn next_u32(&mut self) -> u32 {
        any_u32()
    }
    fn next_u64(&mut self) -> u64 {
        any_u64()
    }
    fn fill_bytes(&mut self, dest: &mut [u8]) {
        for b in dest.iter_mut() {
            *b = any_u8();
        }
    }
    fn try_fill_bytes(&mut self, dest: &mut [u8]) -> Result<(), rand::Error> {
        self.fill_bytes(dest);
        Ok(())
    }
}

/// Contract of the natural logarithm on the arguments the generators pass: (0, 1].
pub const MAXLN: usize = 5;
static mut LN_N: usize = 0;
static mut LN_VALS: [f64; MAXLN] = [0.0; MAXLN];

pub fn ln_stub(x: f64) -> f64 {
    let r = any_f64();
    // the results are recorded so that the harness can recompute the skip lengths the loop used
    unsafe {
        if LN_N < MAXLN {
            LN_VALS[LN_N] = r;
        }
        LN_N += 1;
    }
    if x > 0.0 && x <= 1.0 {
        assume(r <= 0.0 && r >= -745.2);
        if x == 1.0 {
            assume(r == 0.0);
        } else {
            assume(r < 0.0);
        }
    }
    // outside (0, 1] (incl. NaN) the result is unconstrained: no path is cut off
    r
}

/// "Nice" logarithm for the slot-law harnesses: ln(1-p) is one of -0.5, -1, -2 and each draw's
/// logarithm is -k for an integer k in 0..=12 (k = 0 iff the argument is 1), so every skip length in
/// 0..=24 occurs and the harness can recompute it in integer arithmetic. The values are recorded.
static mut NICE_N: usize = 0;
static mut NICE_LP2: i32 = 0; // 2 * |ln(1-p)|: 1, 2 or 4
static mut NICE_K: [i32; 5] = [0; 5];

pub fn ln_nice_stub(x: f64) -> f64 {
    let n = unsafe { NICE_N };
    unsafe {
        NICE_N = n + 1;
    }
    if n == 0 {
        return -1.0; // ln(1-p) := -1, so that the skip length of a draw is simply k
    }
    let k = any_u8();
    assume(k <= 12);
    assume((x == 1.0) == (k == 0));
    unsafe {
        if n - 1 < 5 {
            NICE_K[n - 1] = k as i32;
        }
    }
    -(k as f64)
}

/// The emitted sequence equals the published skipping scheme (a linear walk over the legal slots:
/// the n x n grid without its diagonal, row-major, for directed graphs; the lower triangle for
/// undirected ones) run on the skip lengths the loop drew: skip_k = floor(k / |ln(1-p)|).
fn check_slot_law(n: i32, directed: bool, cnt: usize, pairs: &[(i32, i32); MAXP]) {
    let (calls, ks) = unsafe { (NICE_N, NICE_K) };
    vassert!(calls >= 1 && calls <= 5, "VERIF_BOUND recorded ln calls");
    let mut ref_cnt = 0usize;
    let mut ref_pairs = [(0i32, 0i32); MAXP];
    // linear index of the walk. Directed: over the full n x n grid, row-major; a jump that lands on a
    // diagonal cell moves on to the next cell (the "slot after the diagonal" of the property text);
    // n is 2 here (row = idx >> 1, col = idx & 1). Undirected: over the lower triangle, row v has v slots.
    let total: i32 = if directed { n * n } else { n * (n - 1) / 2 };
    let mut idx: i32 = -1;
    let mut done = false;
    let mut d = 0;
    while d < 4 {
        if d + 1 < calls && !done {
            let skip = ks[d]; // ln(1-p) = -1 and the draw's logarithm is -k: the skip length is k
            idx = idx + 1 + skip;
            if directed && idx < total && (idx >> 1) == (idx & 1) {
                idx += 1;
            }
            if idx >= total {
                done = true;
            } else if ref_cnt < MAXP {
                let (v, w) = if directed {
                    (idx >> 1, idx & 1)
                } else if idx == 0 {
                    (1, 0)
                } else if idx == 1 {
                    (2, 0)
                } else {
                    (2, 1)
                };
                ref_pairs[ref_cnt] = (v, w);
                ref_cnt += 1;
            }
        }
        d += 1;
    }
    vassert!(cnt == ref_cnt, "slot law: as many pairs as the published skipping scheme emits for the drawn skips");
    let mut k = 0;
    while k < MAXP {
        if k < cnt && k < ref_cnt {
            vassert!(pairs[k] == ref_pairs[k], "slot law: each pair is the one the published skipping scheme reaches with the drawn skip");
        }
        k += 1;
    }
    vcover!(cnt >= 2, "two pairs emitted");
}

/// Environment stub for `Vec::push` (growth policy only): the buffer is allocated once with room
/// for 8 elements instead of growing 0 -> 4 -> 8 by realloc. Observable Vec semantics are
/// unchanged; it keeps every allocation size constant for the engine (a conditional first push
/// otherwise makes the next allocation size symbolic, which CBMC's array theory cannot hold in
/// memory: measured > 24 GB at n = 2).
#[cfg(kani)]
pub fn vec_push_stub<T, A: core::alloc::Allocator>(v: &mut Vec<T, A>, value: T) {
    if v.capacity() == 0 {
        v.reserve_exact(6);
    }
    assert!(v.len() < v.capacity(), "VERIF_BOUND vec capacity of the push stub");
    unsafe {
        let len = v.len();
        core::ptr::write(v.as_mut_ptr().add(len), value);
        v.set_len(len + 1);
    }
}

pub const MAXP: usize = 3;
static mut REC_N: usize = 0;
static mut REC: [(i32, i32); MAXP] = [(0, 0); MAXP];

pub fn add_node_stub<T, A>(_g: &mut Graph<T, A>, _n: std::sync::Arc<Node<T, A>>)
where
    T: Eq + Clone + PartialOrd + Ord + std::hash::Hash + Send + Sync + std::fmt::Display,
    A: Clone,
{
}

pub fn add_edge_tuples_stub<T, A>(_g: &mut Graph<T, A>, edges: Vec<(T, T)>) -> Result<(), Error>
where
    T: Eq + Clone + PartialOrd + Ord + std::hash::Hash + Send + Sync + std::fmt::Display,
    A: Clone,
{
    assert!(core::mem::size_of::<T>() == 4);
    assert!(edges.len() <= MAXP, "VERIF_BOUND recorded pair capacity");
    let mut i = 0;
    while i < edges.len() {
        let a: i32 = unsafe { core::mem::transmute_copy(&edges[i].0) };
        let b: i32 = unsafe { core::mem::transmute_copy(&edges[i].1) };
        unsafe {
            REC[i] = (a, b);
        }
        i += 1;
    }
    unsafe {
        REC_N = edges.len();
    }
    core::mem::forget(edges);
    Ok(())
}

#[cfg(kani)]
fn recorded(_g: &Graph<i32, ()>, _directed: bool) -> (usize, [(i32, i32); MAXP]) {
    unsafe { (REC_N, REC) }
}
#[cfg(not(kani))]
fn recorded(g: &Graph<i32, ()>, directed: bool) -> (usize, [(i32, i32); MAXP]) {
    // native replay: the real graph was built; recover the generation order (lexicographic)
    let mut v: Vec<(i32, i32)> = g
        .get_all_edges()
        .iter()
        .map(|e| if directed { (e.u, e.v) } else { (e.u.max(e.v), e.u.min(e.v)) })
        .collect();
    v.sort();
    let mut out = [(0, 0); MAXP];
    for (i, p) in v.iter().enumerate().take(MAXP) {
        out[i] = *p;
    }
    (v.len(), out)
}

fn gnp_body(n: i32, directed: bool, law: bool) {
    let p = any_f64();
    assume(p > 0.0 && p < 1.0);
    let mut rng: Box<dyn RngCore> = Box::new(SymRng);
    let res = if directed {
        fast_gnp_random_graph_directed(n, p, &mut rng)
    } else {
        fast_gnp_random_graph_undirected(n, p, &mut rng)
    };
    vassert!(res.is_ok(), "generator succeeds for 0 < p < 1");
    let g = res.unwrap();
    let (cnt, pairs) = recorded(&g, directed);
    let mut k = 0;
    while k < MAXP {
        if k < cnt {
            let (v, w) = pairs[k];
            vassert!(v >= 0 && v < n && w >= 0 && w < n, "pair in range");
            vassert!(v != w, "no self-loop");
            if !directed {
                vassert!(w < v, "undirected pairs come from the lower triangle");
            }
            if k > 0 {
                let (pv, pw) = pairs[k - 1];
                vassert!(pv < v || (pv == v && pw < w), "no repeated pair (strictly increasing)");
            }
        }
        k += 1;
    }
    if law {
        check_slot_law(n, directed, cnt, &pairs);
    }
    // every possible pair can occur
    let has = |a: i32, b: i32| {
        let mut f = false;
        let mut k = 0;
        while k < MAXP {
            if k < cnt && pairs[k] == (a, b) {
                f = true;
            }
            k += 1;
        }
        f
    };
    vcover!(has(1, 0), "pair 1-0 occurs");
    vcover!(n > 2 && has(2, 0), "pair 2-0 occurs");
    vcover!(n > 2 && has(2, 1), "pair 2-1 occurs");
    vcover!(n > 2 && directed && has(0, 2), "pair 0-2 occurs");
    vcover!(directed && has(0, 1), "pair 0-1 occurs");
    vcover!(n > 2 && directed && has(1, 2), "pair 1-2 occurs");
    vcover!(cnt == 0, "empty graph occurs");
    vcover!(cnt as i32 == if directed { n * (n - 1) } else { n * (n - 1) / 2 }, "complete graph occurs");
    core::mem::forget(g);
}

macro_rules! gnp_harness {
    ($name:ident, $n:expr, $d:expr, $u:literal) => {
        #[cfg_attr(
            kani,
            kani::proof,
            kani::unwind($u),
            kani::stub(alloc::fmt::format, crate::vk::stub_format),
            kani::stub(f64::ln, ln_stub),
            kani::stub(crate::Graph::add_node, add_node_stub),
            kani::stub(crate::Graph::add_edge_tuples, add_edge_tuples_stub),
            kani::stub(std::vec::Vec::push, vec_push_stub)
        )]
        #[cfg_attr(all(feature = "verif_replay", not(kani)), test)]
        #[allow(dead_code)]
        fn $name() {
            crate::vk::begin(stringify!($name));
            gnp_body($n, $d, false);
            crate::vk::end();
        }
    };
}
macro_rules! law_harness {
    ($name:ident, $n:expr, $d:expr, $u:literal) => {
        #[cfg_attr(
            kani,
            kani::proof,
            kani::unwind($u),
            kani::stub(alloc::fmt::format, crate::vk::stub_format),
            kani::stub(f64::ln, ln_nice_stub),
            kani::stub(crate::Graph::add_node, add_node_stub),
            kani::stub(crate::Graph::add_edge_tuples, add_edge_tuples_stub),
            kani::stub(std::vec::Vec::push, vec_push_stub)
        )]
        #[allow(dead_code)]
        fn $name() {
            gnp_body($n, $d, true);
        }
    };
}
// slot-law harnesses (not registered, see DESIGN.md section 4, C16): the float-equivalence encoding was
// not decided within 25 minutes and the contract-stub encoding produced failures that could not be
// explained; kept for reference only.
law_harness!(c16_law_undirected_n2, 2, false, 5);
law_harness!(c16_law_directed_n2, 2, true, 5);
gnp_harness!(c16_gnp_undirected_n3, 3, false, 5);
gnp_harness!(c16_gnp_directed_n3, 3, true, 8);
gnp_harness!(c16_gnp_undirected_n2, 2, false, 5);
gnp_harness!(c16_gnp_directed_n2, 2, true, 5);


// Argument validation: every p outside (0,1) -- including NaN and +-inf -- is rejected with
// InvalidArgument before any random number is drawn. The seeded generator constructor is stubbed
// (Kani cannot compile the ChaCha / thread_rng paths; it is not reached when p is rejected).
pub fn rng_stub(_seed: Option<u64>) -> Box<dyn RngCore> {
    Box::new(SymRng)
}
/// The skipping loops are the subject of the c16_gnp_* harnesses; here only the guard runs.
pub fn kernel_stub(_n: i32, _p: f64, _rng: &mut Box<dyn RngCore>) -> Result<Graph<i32, ()>, Error> {
    Ok(Graph::new(GraphSpecs::directed_create_missing()))
}
fn guard_body() {
    let p = any_f64();
    assume(!(p > 0.0 && p < 1.0));
    let n = any_i32();
    assume(n >= 0 && n <= 300);
    let r = fast_gnp_random_graph(n, p, any_bool(), Some(any_u64()));
    let rejected = match &r {
        Err(e) => matches!(e.kind, ErrorKind::InvalidArgument),
        Ok(_) => false,
    };
    vcover!(p.is_nan(), "NaN probability");
    vcover!(p >= 1.0, "probability one or more");
    vcover!(p <= 0.0, "probability zero or less");
    vassert!(rejected, "p outside (0,1) is rejected with InvalidArgument");
    core::mem::forget(r);
}
#[cfg_attr(
    kani,
    kani::proof,
    kani::unwind(5),
    kani::stub(alloc::fmt::format, crate::vk::stub_format),
    kani::stub(f64::ln, ln_stub),
    kani::stub(get_random_number_generator, rng_stub),
    kani::stub(fast_gnp_random_graph_directed, kernel_stub),
    kani::stub(fast_gnp_random_graph_undirected, kernel_stub)
)]
#[cfg_attr(all(feature = "verif_replay", not(kani)), test)]
#[allow(dead_code)]
fn c16_guard_rejects_outside_unit_interval() {
    crate::vk::begin("c16_guard_rejects_outside_unit_interval");
    guard_body();
    crate::vk::end();
}
