// probe: cost of one add_edge over the shim
use super::*;
use crate::{Edge, EdgeDedupeStrategy, GraphSpecs, MissingNodeStrategy, Node, SelfLoopsFalseStrategy, ErrorKind};
use std::sync::Arc;

#[derive(Clone, Copy, PartialEq, Eq, PartialOrd, Ord, Hash, Debug)]
pub struct Nm(pub u8);
impl std::fmt::Display for Nm {
    fn fmt(&self, _f: &mut std::fmt::Formatter<'_>) -> std::fmt::Result { Ok(()) }
}

pub fn stub_format(_a: std::fmt::Arguments<'_>) -> String { String::new() }

fn any_specs() -> GraphSpecs {
    GraphSpecs {
        directed: kani::any(),
        edge_dedupe_strategy: match kani::any::<u8>() % 3 { 0 => EdgeDedupeStrategy::Error, 1 => EdgeDedupeStrategy::KeepFirst, _ => EdgeDedupeStrategy::KeepLast },
        missing_node_strategy: if kani::any() { MissingNodeStrategy::Create } else { MissingNodeStrategy::Error },
        multi_edges: kani::any(),
        self_loops: kani::any(),
        self_loops_false_strategy: if kani::any() { SelfLoopsFalseStrategy::Error } else { SelfLoopsFalseStrategy::Drop },
    }
}

#[kani::proof]
#[kani::stub(alloc::fmt::format, stub_format)]
#[kani::unwind(6)]
fn probe_one_add_edge_empty() {
    let specs = any_specs();
    let mut g: Graph<Nm, u8> = Graph::new(specs);
    let u: u8 = kani::any(); kani::assume(u < 3);
    let v: u8 = kani::any(); kani::assume(v < 3);
    let w: f64 = kani::any();
    let r = g.add_edge(Edge::with_weight(Nm(u), Nm(v), w));
    if r.is_ok() {
        assert!(g.nodes_vec.len() <= 2);
    }
    core::mem::forget(g);
    core::mem::forget(r);
}

#[kani::proof]
#[kani::stub(alloc::fmt::format, stub_format)]
#[kani::unwind(6)]
fn probe_two_add_edge() {
    let specs = any_specs();
    let mut g: Graph<Nm, u8> = Graph::new(specs);
    let u: u8 = kani::any(); kani::assume(u < 3);
    let v: u8 = kani::any(); kani::assume(v < 3);
    let w: f64 = kani::any();
    let r = g.add_edge(Edge::with_weight(Nm(u), Nm(v), w));
    let u2: u8 = kani::any(); kani::assume(u2 < 3);
    let v2: u8 = kani::any(); kani::assume(v2 < 3);
    let w2: f64 = kani::any();
    let r2 = g.add_edge(Edge::with_weight(Nm(u2), Nm(v2), w2));
    if r.is_ok() && r2.is_ok() {
        assert!(g.nodes_vec.len() <= 3);
    }
    core::mem::forget(g);
    core::mem::forget(r);
    core::mem::forget(r2);
}

#[kani::proof]
#[kani::stub(alloc::fmt::format, stub_format)]
#[kani::unwind(6)]
fn probe_s0_new() {
    let g: Graph<Nm, u8> = Graph::new(GraphSpecs::directed_create_missing());
    assert!(g.nodes_vec.len() == 0);
    core::mem::forget(g);
}
#[kani::proof]
#[kani::stub(alloc::fmt::format, stub_format)]
#[kani::unwind(6)]
fn probe_s1_addnode() {
    let mut g: Graph<Nm, u8> = Graph::new(GraphSpecs::directed_create_missing());
    g.add_node(Node::from_name(Nm(2)));
    assert!(g.nodes_vec.len() == 1);
    core::mem::forget(g);
}
#[kani::proof]
#[kani::stub(alloc::fmt::format, stub_format)]
#[kani::unwind(6)]
fn probe_s2_addnode2() {
    let mut g: Graph<Nm, u8> = Graph::new(GraphSpecs::directed_create_missing());
    g.add_node(Node::from_name(Nm(2)));
    g.add_node(Node::from_name(Nm(0)));
    assert!(g.nodes_vec.len() == 2);
    core::mem::forget(g);
}
#[kani::proof]
#[kani::stub(alloc::fmt::format, stub_format)]
#[kani::unwind(6)]
fn probe_s3_addedge_concrete() {
    let mut g: Graph<Nm, u8> = Graph::new(GraphSpecs::directed_create_missing());
    g.add_node(Node::from_name(Nm(2)));
    g.add_node(Node::from_name(Nm(0)));
    let r = g.add_edge(Edge::with_weight(Nm(2), Nm(0), 1.0));
    assert!(g.nodes_vec.len() == 2);
    core::mem::forget(g);
    core::mem::forget(r);
}

#[kani::proof]
#[kani::stub(alloc::fmt::format, stub_format)]
#[kani::unwind(6)]
fn probe_t1_symspecs_concrete_names() {
    let mut g: Graph<Nm, u8> = Graph::new(any_specs());
    let w: f64 = kani::any();
    let r = g.add_edge(Edge::with_weight(Nm(2), Nm(0), w));
    let w2: f64 = kani::any();
    let r2 = g.add_edge(Edge::with_weight(Nm(0), Nm(2), w2));
    if r.is_ok() { assert!(g.nodes_vec.len() == 2); }
    core::mem::forget(g);
    core::mem::forget(r);
    core::mem::forget(r2);
}
#[kani::proof]
#[kani::stub(alloc::fmt::format, stub_format)]
#[kani::unwind(6)]
fn probe_t2_symnames_concrete_specs() {
    let mut g: Graph<Nm, u8> = Graph::new(GraphSpecs::directed_create_missing());
    let u: u8 = kani::any(); kani::assume(u < 3);
    let v: u8 = kani::any(); kani::assume(v < 3);
    let w: f64 = kani::any();
    let r = g.add_edge(Edge::with_weight(Nm(u), Nm(v), w));
    if r.is_ok() { assert!(g.nodes_vec.len() <= 2); }
    core::mem::forget(g);
    core::mem::forget(r);
}

#[kani::proof]
#[kani::stub(alloc::fmt::format, stub_format)]
#[kani::unwind(6)]
fn probe_u1_symspecs_one_op() {
    let mut g: Graph<Nm, u8> = Graph::new(any_specs());
    g.add_node(Node::from_name(Nm(2)));
    g.add_node(Node::from_name(Nm(0)));
    let w: f64 = kani::any();
    let r = g.add_edge(Edge::with_weight(Nm(2), Nm(0), w));
    if r.is_ok() { assert!(g.nodes_vec.len() == 2); }
    core::mem::forget(g);
    core::mem::forget(r);
}
#[kani::proof]
#[kani::stub(alloc::fmt::format, stub_format)]
#[kani::unwind(6)]
fn probe_u2_symspecs_one_op_create() {
    let mut g: Graph<Nm, u8> = Graph::new(any_specs());
    let w: f64 = kani::any();
    let r = g.add_edge(Edge::with_weight(Nm(2), Nm(0), w));
    if r.is_ok() { assert!(g.nodes_vec.len() == 2); }
    core::mem::forget(g);
    core::mem::forget(r);
}
