//! K-ac harnesses for C01 / C03, child module of graphrs::graph::creation.
//!
//! Scenario scheme (DESIGN.md 3.2): node names and the *shape* of the pre-state are concrete per
//! harness (the generator enumerates them); the pre-state is produced by real add_node/add_edge
//! calls under concrete permissive policies of the same kind (directed x multi_edges); then the
//! policy fields become symbolic (all 24 combinations of the kind; `specs` is a pub field and the
//! representation does not depend on the policy fields) for the ONE operation under test, whose
//! weight / attribute arguments are symbolic as well.
use super::*;
use crate::graph::verif_model::*;
use crate::vk::*;
use crate::{vassert, vcover};

fn any_attr() -> Option<u8> {
    if any_bool() {
        Some(any_u8())
    } else {
        None
    }
}

/// Pre-state catalogue. The graph is filled by `build_direct` (constant shape for the engine;
/// validated against real add_node/add_edge histories by the c02_build_* harnesses and natively),
/// the reference model by the same node and edge lists. Returns (graph, model, has self-loop).
fn build_pre(directed: bool, multi: bool, pre: u8) -> (G, RefGraph, bool) {
    let ps = permissive(directed, multi);
    let (a1, a2) = (any_attr(), any_attr());
    let (w1, w2) = (any_f64(), any_f64());
    let (nodes, edges, lp): (Vec<(u8, Option<u8>)>, Vec<(u8, u8, f64)>, bool) = match pre {
        0 => (vec![], vec![], false),
        1 => (vec![(2, a1), (0, a2)], vec![], false),
        2 => (vec![(2, a1), (0, None)], vec![(2, 0, w1)], false),
        3 => (vec![(2, None), (0, a1), (1, None)], vec![(2, 0, w1), (0, 1, w2)], false),
        4 => (vec![(2, None), (0, None)], vec![(2, 2, w1)], true),
        // parallel edges (multi-edge kinds only)
        5 => (vec![(2, None), (0, None)], vec![(2, 0, w1), (2, 0, w2)], false),
        // edge given against name order: (1,0) is stored as (0,1) on undirected graphs while the
        // positions are 1 -> 2, 0 -> 1
        _ => (vec![(2, None), (0, None), (1, a1)], vec![(1, 0, w1)], false),
    };
    let mut m = RefGraph::empty();
    let mut i = 0;
    while i < nodes.len() {
        m.add_node(nodes[i].0, nodes[i].1);
        i += 1;
    }
    let mut k = 0;
    while k < edges.len() {
        let _ = m.add_edge(&ps, edges[k].0, edges[k].1, edges[k].2);
        k += 1;
    }
    let g = build_direct(ps, &nodes, &edges);
    core::mem::forget(nodes);
    core::mem::forget(edges);
    (g, m, lp)
}

fn op_endpoints(op: u8) -> (u8, u8) {
    match op {
        0 => (2, 0),
        1 => (0, 2),
        2 => (2, 2),
        3 => (0, 1),
        4 => (2, 3),
        5 => (3, 2),
        6 => (3, 3),
        7 => (3, 4),
        _ => (1, 0),
    }
}

fn check_getters(g: &G, r: &RefGraph) {
    let names = g.get_all_node_names();
    vassert!(names.len() == r.n, "get_all_node_names length");
    let mut i = 0;
    while i < names.len() {
        vassert!(names[i].0 == r.names[i], "get_all_node_names order");
        let nd = g.get_node(Nm(r.names[i]));
        vassert!(nd.is_some(), "get_node finds every node");
        vassert!(nd.unwrap().attributes == r.attrs[i], "get_node attributes");
        i += 1;
    }
    vassert!(g.get_node(Nm(9)).is_none(), "get_node absent");
    let es = g.get_all_edges();
    vassert!(es.len() == r.m, "get_all_edges count");
    core::mem::forget(es);
    core::mem::forget(names);
}

/// One operation from the catalogue on one pre-state; 8 policy combinations symbolic.
fn c01_step(directed: bool, multi: bool, pre: u8, op: u8, dd: u8, mm: u8, sl: u8) {
    let (mut g, mut expect, has_loop) = build_pre(directed, multi, pre);
    let specs = any_specs_kind_dd_mm_sl(directed, multi, dd, mm, sl);
    assume(specs.self_loops || !has_loop);
    g.specs = specs.clone();
    let (a, b);
    if op < 9 {
        let (u, v) = op_endpoints(op);
        a = u;
        b = v;
        let w = any_f64();
        let want = expect.add_edge(&specs, u, v, w);
        let res = g.add_edge(edge(u, v, w));
        let got = outcome_of(&res);
        vcover!(got == Outcome::Ok, "op accepted");
        vcover!(got != Outcome::Ok, "op rejected");
        vassert!(got == want, "outcome kind");
        core::mem::forget(res);
    } else if op == 9 || op == 10 || op == 11 {
        let x = if op == 9 { 2 } else if op == 10 { 0 } else { 3 };
        a = x;
        b = 2;
        let at = any_attr();
        expect.add_node(x, at);
        g.add_node(node(x, at));
        vcover!(at.is_some(), "op accepted");
    } else {
        // add_edge_tuple: unweighted edge (2,0)
        a = 2;
        b = 0;
        let want = expect.add_edge(&specs, 2, 0, f64::NAN);
        let res = g.add_edge_tuple(Nm(2), Nm(0));
        let got = outcome_of(&res);
        vcover!(got == Outcome::Ok, "op accepted");
        vcover!(got != Outcome::Ok, "op rejected");
        vassert!(got == want, "outcome kind");
        core::mem::forget(res);
    }
    let after = alpha(&g);
    vassert!(after.same_as(&expect, directed), "node list and edge multiset as the specs dictate");
    vassert!(node_coherent(&g, &after, a) && node_coherent(&g, &after, b), "node indexes coherent");
    vassert!(pair_coherent(&g, &after, a, b) && pair_coherent(&g, &after, b, a), "edge indexes coherent for the touched pair");
    vassert!(pair_coherent(&g, &after, 2, 0), "edge indexes coherent for the pair (2,0)");
    core::mem::forget(g);
}

/// Public getters agree with the model after a concrete-policy operation (cheap observation of
/// what users see: names in order, attributes, edge count).
fn c01_getters(directed: bool, multi: bool, pre: u8, op: u8, dd: u8) {
    let (mut g, mut expect, _lp) = build_pre(directed, multi, pre);
    let specs = GraphSpecs { edge_dedupe_strategy: dedupe_of(dd), ..permissive(directed, multi) };
    g.specs = specs.clone();
    let (u, v) = op_endpoints(op);
    let w = any_f64();
    let _ = expect.add_edge(&specs, u, v, w);
    let res = g.add_edge(edge(u, v, w));
    core::mem::forget(res);
    check_getters(&g, &expect);
    let after = alpha(&g);
    vassert!(rep_inv(&g, &after), "full representation invariant");
    core::mem::forget(g);
}

/// C03: as c01_step but the assertion is the traversal-list clause only.
fn c03_step(directed: bool, multi: bool, pre: u8, op: u8, dd: u8, mm: u8, sl: u8) {
    let (mut g, before, has_loop) = build_pre(directed, multi, pre);
    let specs = any_specs_kind_dd_mm_sl(directed, multi, dd, mm, sl);
    assume(specs.self_loops || !has_loop);
    g.specs = specs.clone();
    let (u, v) = op_endpoints(op);
    let w = any_f64();
    // uniformly weighted or uniformly unweighted histories (the property's quantifier)
    let mut k = 0;
    while k < before.m {
        assume(before.ew[k].is_nan() == w.is_nan());
        k += 1;
    }
    let res = g.add_edge(edge(u, v, w));
    vcover!(res.is_ok(), "op accepted");
    vcover!(res.is_err(), "op rejected");
    core::mem::forget(res);
    let after = alpha(&g);
    vassert!(pair_coherent(&g, &after, u, v) && pair_coherent(&g, &after, v, u), "traversal lists match the edge store");
    core::mem::forget(g);
}

/// Batch entry points: exact-prefix semantics. Two edges, symbolic policies.
fn c01_batch(directed: bool, multi: bool, pre: u8, op1: u8, op2: u8, which: u8, dd: u8, mm: u8) {
    let (mut g, before, has_loop) = build_pre(directed, multi, pre);
    let specs = any_specs_kind_dd_mm(directed, multi, dd, mm);
    assume(specs.self_loops || !has_loop);
    g.specs = specs.clone();
    let (u1, v1) = op_endpoints(op1);
    let (u2, v2) = op_endpoints(op2);
    let mut expect = before;
    let res;
    let want;
    if which == 0 {
        let (w1, w2) = (any_f64(), any_f64());
        let o1 = expect.add_edge(&specs, u1, v1, w1);
        want = if o1 == Outcome::Ok { expect.add_edge(&specs, u2, v2, w2) } else { o1 };
        res = g.add_edges(vec![edge(u1, v1, w1), edge(u2, v2, w2)]);
    } else {
        let o1 = expect.add_edge(&specs, u1, v1, f64::NAN);
        want = if o1 == Outcome::Ok { expect.add_edge(&specs, u2, v2, f64::NAN) } else { o1 };
        res = g.add_edge_tuples(vec![(Nm(u1), Nm(v1)), (Nm(u2), Nm(v2))]);
    }
    let got = outcome_of(&res);
    vcover!(got == Outcome::Ok, "op accepted");
    vcover!(got != Outcome::Ok, "op rejected");
    vassert!(got == want, "outcome kind");
    core::mem::forget(res);
    let after = alpha(&g);
    vassert!(after.same_as(&expect, directed), "batch applies exactly the prefix before the first failure");
    vassert!(pair_coherent(&g, &after, u2, v2) && pair_coherent(&g, &after, u1, v1), "edge indexes coherent after batch");
    core::mem::forget(g);
}

/// new_from_nodes_and_edges == add_nodes then add_edges on an empty graph (concrete policies per
/// harness: every call runs under the symbolic-free specs, weights/attributes symbolic).
fn c01_from_nodes_and_edges(directed: bool, multi: bool, dd: u8, create: bool) {
    let specs = GraphSpecs {
        directed,
        edge_dedupe_strategy: dedupe_of(dd),
        missing_node_strategy: if create { MissingNodeStrategy::Create } else { MissingNodeStrategy::Error },
        multi_edges: multi,
        self_loops: false,
        self_loops_false_strategy: SelfLoopsFalseStrategy::Drop,
    };
    let (a2, a0) = (any_attr(), any_attr());
    let (w1, w2, w3) = (any_f64(), any_f64(), any_f64());
    let mut expect = RefGraph::empty();
    expect.add_node(2, a2);
    expect.add_node(0, a0);
    let mut want = expect.add_edge(&specs, 2, 0, w1);
    if want == Outcome::Ok {
        want = expect.add_edge(&specs, 0, 0, w2);
    }
    if want == Outcome::Ok {
        want = expect.add_edge(&specs, 0, 2, w3);
    }
    let res = Graph::new_from_nodes_and_edges(
        vec![node(2, a2), node(0, a0)],
        vec![edge(2, 0, w1), edge(0, 0, w2), edge(0, 2, w3)],
        specs,
    );
    match res {
        Ok(g) => {
            vassert!(want == Outcome::Ok, "outcome kind");
            let after = alpha(&g);
            vassert!(after.same_as(&expect, directed), "node list and edge multiset as the specs dictate");
            vassert!(rep_inv(&g, &after), "representation invariant after construction");
            vcover!(true, "op accepted");
            core::mem::forget(g);
        }
        Err(e) => {
            let r: Result<(), crate::Error> = Err(e);
            vassert!(outcome_of(&r) == want, "outcome kind");
            vcover!(true, "op rejected");
            core::mem::forget(r);
        }
    }
}


include!("gen_creation_ac.rs");
