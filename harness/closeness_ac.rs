//! K-ac harnesses for C06, child module of graphrs::algorithms::centrality::closeness.
//! Decided here: the centrality formula for arbitrary distance lists; the level-synchronous BFS
//! distances and the public function in hop-count mode on generator-enumerated topologies with the
//! Wasserman-Faust flag symbolic (directed graphs: incoming distances). The weighted search stage
//! (BinaryHeap) is outside (see betweenness_ac.rs).
use super::*;
use crate::graph::verif_model::*;
use crate::vk::*;
use crate::{vassert, vcover};

const NAMES: [u8; 3] = [2, 0, 1];
const INF: usize = 99;

fn close(a: f64, b: f64) -> bool {
    let d = if a > b { a - b } else { b - a };
    d <= 1e-12
}

/// formula: (r-1)/sum, times (r-1)/(n-1) with the WF flag, 0 when nothing else reaches the node
fn c06_formula(n: usize, r: usize) {
    let wf = any_bool();
    // distances 1 or 2 or 3 (two symbolic float divisions on each side make wider ranges too slow)
    let pick = || 1.0 + any_below(3) as f64;
    let ds = [pick(), pick(), pick(), pick(), pick()];
    let mut sp: Vec<(usize, f64)> = Vec::with_capacity(6);
    sp.push((0, 0.0));
    let mut sum = 0.0;
    let mut i = 1;
    while i < 6 {
        if i < r {
            sp.push((i, ds[i - 1]));
            sum += ds[i - 1];
        }
        i += 1;
    }
    let got = get_node_centrality(&sp, n, wf);
    let want = if r <= 1 {
        0.0
    } else {
        let base = (r - 1) as f64 / sum;
        if wf { base * ((r - 1) as f64 / (n - 1) as f64) } else { base }
    };
    vassert!(got == want, "closeness = (r-1)/sum of distances, times (r-1)/(n-1) with wf_improved, 0 if nothing else reaches the node");
    vcover!(wf, "wf_improved");
    vcover!(!wf, "plain");
    core::mem::forget(sp);
}

fn hop_dist(edges: &Vec<(u8, u8, f64)>, directed: bool) -> [[usize; 3]; 3] {
    let mut adj = [[false; 3]; 3];
    let mut i = 0;
    while i < 3 {
        let mut j = 0;
        while j < 3 {
            adj[i][j] = i != j && adj_in(edges, NAMES[i], NAMES[j], directed);
            j += 1;
        }
        i += 1;
    }
    let mut d = [[INF; 3]; 3];
    let mut s = 0;
    while s < 3 {
        d[s][s] = 0;
        let mut t = 0;
        while t < 3 {
            if t != s && adj[s][t] {
                d[s][t] = 1;
            }
            t += 1;
        }
        let mut t = 0;
        while t < 3 {
            if t != s && d[s][t] == INF {
                let m = 3 - s - t;
                if adj[s][m] && adj[m][t] {
                    d[s][t] = 2;
                }
            }
            t += 1;
        }
        s += 1;
    }
    d
}

fn c06_public_unweighted(directed: bool, mask: u8) {
    let edges = topo_edges(directed, mask, false);
    let g = build_direct(permissive(directed, false), &topo_nodes(), &edges);
    let d = hop_dist(&edges, directed);
    // BFS kernel: outgoing hop distances from each source
    let mut s = 0;
    while s < 3 {
        let r = single_source_shortest_path_length_unweighted(&g, s);
        let mut t = 0;
        while t < 3 {
            let mut found = INF;
            let mut cnt = 0;
            let mut k = 0;
            while k < r.len() {
                if r[k].0 == t {
                    found = r[k].1 as usize;
                    cnt += 1;
                }
                k += 1;
            }
            vassert!(cnt == if d[s][t] != INF { 1 } else { 0 }, "exactly the reachable nodes are listed, each once");
            vassert!(found == d[s][t], "level-synchronous BFS distance");
            t += 1;
        }
        core::mem::forget(r);
        s += 1;
    }
    // closeness_centrality itself cannot be compiled by Kani 0.68 (rayon branch, see C05). Its
    // sequential branch is the composition below: reverse for directed graphs, the BFS kernel per
    // source, get_node_centrality.
    let wf = any_bool();
    let rg;
    let the_graph = if directed {
        rg = g.reverse().unwrap();
        &rg
    } else {
        &g
    };
    let mut u = 0;
    while u < 3 {
        let sp = single_source_shortest_path_length_unweighted(the_graph, u);
        let got = get_node_centrality(&sp, 3, wf);
        core::mem::forget(sp);
        // incoming distances: d[x][u]
        let mut r = 0;
        let mut sum = 0.0;
        let mut x = 0;
        while x < 3 {
            if d[x][u] != INF {
                r += 1;
                sum += d[x][u] as f64;
            }
            x += 1;
        }
        let want = if r <= 1 {
            0.0
        } else {
            let base = (r - 1) as f64 / sum;
            if wf { base * ((r - 1) as f64 / 2.0) } else { base }
        };
        vassert!(the_graph.get_node_by_index(&u).unwrap().name.0 == NAMES[u], "the reversed graph keeps the node positions");
        vassert!(close(got, want), "closeness uses distances of paths arriving at the node");
        u += 1;
    }
    vcover!(wf, "wf_improved");
    vcover!(!wf, "plain");
    core::mem::forget(g);
    core::mem::forget(edges);
}

include!("gen_closeness_ac.rs");
