//! K-ac harnesses for C10, child module of graphrs::algorithms::components.
use super::*;
use crate::graph::verif_model::*;
use crate::vk::*;
use crate::{vassert, vcover};
use crate::ErrorKind;

fn pick_mask(mask: i32, bits: u8) -> u8 {
    if mask >= 0 {
        mask as u8
    } else {
        let m = any_u8();
        assume(m < (1u8 << bits));
        m
    }
}

fn is_wrong_method<T>(r: &Result<T, crate::Error>) -> bool {
    match r {
        Err(e) => matches!(e.kind, ErrorKind::WrongMethod),
        Ok(_) => false,
    }
}

/// Check that `comps` partitions {2,0,1} by the equivalence `same[i][j]`.
fn check_partition(comps: &Vec<HashSetT<Nm>>, same: &[[bool; 3]; 3]) {
    let names = [2u8, 0, 1];
    let mut where_is = [usize::MAX; 3];
    let mut c = 0;
    while c < comps.len() {
        vassert!(comps[c].len() > 0, "components are non-empty");
        let mut i = 0;
        while i < 3 {
            if comps[c].contains(&Nm(names[i])) {
                vassert!(where_is[i] == usize::MAX, "components are disjoint");
                where_is[i] = c;
            }
            i += 1;
        }
        c += 1;
    }
    let mut total = 0;
    let mut c = 0;
    while c < comps.len() {
        total += comps[c].len();
        c += 1;
    }
    vassert!(total == 3, "components contain every node exactly once and nothing else");
    let mut i = 0;
    while i < 3 {
        vassert!(where_is[i] != usize::MAX, "every node is in some component");
        let mut j = 0;
        while j < 3 {
            vassert!((where_is[i] == where_is[j]) == same[i][j], "two nodes share a component iff they are connected by the right kind of path");
            j += 1;
        }
        i += 1;
    }
}

fn c10_undirected(mask: i32, multi: bool) {
    let m = pick_mask(mask, 4);
    let edges = topo_edges(false, m, false);
    let g = build_direct(permissive(false, multi), &topo_nodes(), &edges);
    let reach = closure3(&edges, false);
    let comps = connected_components(&g);
    vassert!(comps.is_ok(), "connected_components succeeds on an undirected graph");
    check_partition(comps.as_ref().unwrap(), &reach);
    let n = number_of_connected_components(&g);
    vassert!(n.is_ok() && *n.as_ref().unwrap() == comps.as_ref().unwrap().len(), "number_of_connected_components");
    let names = [2u8, 0, 1];
    let mut i = 0;
    while i < 3 {
        let c = node_connected_component(&g, &Nm(names[i]));
        vassert!(c.is_ok(), "node_connected_component succeeds");
        let mut j = 0;
        while j < 3 {
            vassert!(c.as_ref().unwrap().contains(&Nm(names[j])) == reach[i][j], "node_connected_component is the set containing the node");
            j += 1;
        }
        core::mem::forget(c);
        i += 1;
    }
    let w = weakly_connected_components(&g);
    let s = strongly_connected_components(&g);
    vassert!(is_wrong_method(&w) && is_wrong_method(&s), "directed-only component functions refuse undirected graphs");
    core::mem::forget(comps);
    core::mem::forget(n);
    core::mem::forget(w);
    core::mem::forget(s);
    core::mem::forget(g);
    core::mem::forget(edges);
}

fn c10_directed(mask: i32, multi: bool, which: u8) {
    let m = pick_mask(mask, 7);
    let edges = topo_edges(true, m, false);
    let g = build_direct(permissive(true, multi), &topo_nodes(), &edges);
    let reach = closure3(&edges, true);
    if which == 0 {
        // weak: ignore direction
        let ur = closure3(&edges, false);
        let w = weakly_connected_components(&g);
        vassert!(w.is_ok(), "weakly_connected_components succeeds on a directed graph");
        check_partition(w.as_ref().unwrap(), &ur);
        core::mem::forget(w);
        let c = connected_components(&g);
        let nc = number_of_connected_components(&g);
        let nn = node_connected_component(&g, &Nm(2));
        vassert!(is_wrong_method(&c) && is_wrong_method(&nc) && is_wrong_method(&nn), "undirected-only component functions refuse directed graphs");
        core::mem::forget(c);
        core::mem::forget(nc);
        core::mem::forget(nn);
    } else {
        let mut both = [[false; 3]; 3];
        let mut i = 0;
        while i < 3 {
            let mut j = 0;
            while j < 3 {
                both[i][j] = reach[i][j] && reach[j][i];
                j += 1;
            }
            i += 1;
        }
        let s = strongly_connected_components(&g);
        vassert!(s.is_ok(), "strongly_connected_components succeeds on a directed graph");
        check_partition(s.as_ref().unwrap(), &both);
        core::mem::forget(s);
    }
    core::mem::forget(g);
    core::mem::forget(edges);
}

/// bfs_equal_size_partitions(k): every node in exactly one of k parts of size <= n/k + 1.
fn c10_bfs_partitions(directed: bool, mask: i32, k: usize) {
    let m = pick_mask(mask, if directed { 7 } else { 4 });
    let edges = topo_edges(directed, m, false);
    let g = build_direct(permissive(directed, false), &topo_nodes(), &edges);
    let parts = bfs_equal_size_partitions(&g, k);
    vassert!(parts.len() == k, "exactly k parts");
    let names = [2u8, 0, 1];
    let mut i = 0;
    while i < 3 {
        let mut c = 0;
        let mut p = 0;
        while p < parts.len() {
            let mut j = 0;
            while j < parts[p].len() {
                if parts[p][j].0 == names[i] {
                    c += 1;
                }
                j += 1;
            }
            p += 1;
        }
        vassert!(c == 1, "every node is placed in exactly one part");
        i += 1;
    }
    let mut p = 0;
    while p < parts.len() {
        vassert!(parts[p].len() <= 3 / k + 1, "part size is bounded by n/k + 1");
        p += 1;
    }
    vcover!(true, "reached end");
    core::mem::forget(parts);
    core::mem::forget(g);
    core::mem::forget(edges);
}

include!("gen_components_ac.rs");
