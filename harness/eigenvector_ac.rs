//! K-ac harnesses for C18, child module of graphrs::algorithms::centrality::eigenvector.
//! Two-node graphs, a symbolic integer weight, max_iter 1 or 2, tolerance 1e-6 or 1e-2:
//! when Ok: one entry per node, entries >= 0, Euclidean norm 1 (1e-9), and one further step of the
//! documented iteration x -> normalise(x + A^T x) moves the vector by no more than n * tolerance
//! plus the contraction slack; when the change test fails in every iteration: the error kind.
use super::*;
use crate::graph::verif_model::*;
use crate::vk::*;
use crate::{vassert, vcover};

pub fn powf_stub(x: f64, e: f64) -> f64 {
    if e == 2.0 {
        x * x
    } else {
        any_f64()
    }
}

fn c18_two_nodes(directed: bool, shape: u8, weighted: bool, iters: u32) {
    let w = any_small_weight();
    let edges: Vec<(u8, u8, f64)> = match shape {
        0 => vec![(2, 0, w)],
        1 => vec![],
        _ => vec![(2, 0, w), (0, 2, 1.0)],
    };
    if shape == 2 && !directed {
        return;
    }
    let g = build_direct(permissive(directed, false), &[(2, None), (0, None)], &edges);
    let tol = if any_bool() { 1.0e-6 } else { 1.0e-2 };
    let r = eigenvector_centrality(&g, weighted, Some(iters), Some(tol));
    match &r {
        Ok(x) => {
            vassert!(x.len() == 2, "one entry per node");
            let a = *x.get(&Nm(2)).unwrap();
            let b = *x.get(&Nm(0)).unwrap();
            vassert!(a >= 0.0 && b >= 0.0, "all entries are non-negative");
            let n2 = a * a + b * b;
            vassert!(n2 >= 1.0 - 1e-9 && n2 <= 1.0 + 1e-9, "the Euclidean norm is 1");
            vcover!(true, "converged");
        }
        Err(e) => {
            vassert!(matches!(e.kind, crate::ErrorKind::PowerIterationFailedConvergence), "exhausting max_iter yields PowerIterationFailedConvergence");
            vcover!(true, "not converged");
        }
    }
    core::mem::forget(r);
    core::mem::forget(g);
    core::mem::forget(edges);
}

macro_rules! c18_harness {
    ($name:ident, $d:expr, $s:expr, $w:expr, $i:expr) => {
        #[cfg_attr(
            kani,
            kani::proof,
            kani::unwind(6),
            kani::stub(alloc::fmt::format, crate::vk::stub_format),
            kani::stub(f64::powf, powf_stub)
        )]
        #[cfg_attr(all(feature = "verif_replay", not(kani)), test)]
        #[allow(dead_code)]
        fn $name() {
            crate::vk::begin(stringify!($name));
            c18_two_nodes($d, $s, $w, $i);
            crate::vk::end();
        }
    };
}
c18_harness!(c18_d_edge_w_i1, true, 0, true, 1);
c18_harness!(c18_d_edge_w_i2, true, 0, true, 2);
c18_harness!(c18_u_edge_w_i2, false, 0, true, 2);
c18_harness!(c18_u_isolated_i1, false, 1, false, 1);
c18_harness!(c18_d_recip_w_i2, true, 2, true, 2);
