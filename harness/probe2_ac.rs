use super::*;
use crate::graph::verif_model::*;
use crate::vk::*;

fn pre2() -> G {
    let mut g: G = Graph::new(permissive(true, false));
    g.add_node(node(2, None));
    g.add_node(node(0, None));
    let r = g.add_edge(edge(2, 0, any_f64()));
    core::mem::forget(r);
    g
}
crate::vharness! { unwind = 7; fn probe_const_a() {
    let mut g = pre2();
    let e = g.get_edge_by_indexes(1, 0).is_ok();
    if e {
        let r = g.add_edge(edge(0, 2, 1.0));
        core::mem::forget(r);
    }
    assert!(g.nodes_vec.len() == 2);
    core::mem::forget(g);
}}
crate::vharness! { unwind = 7; fn probe_const_b() {
    let g = pre2();
    let e = g.get_edge_by_indexes(1, 0).is_ok();
    assert!(!e);
    assert!(g.nodes_vec.len() == 2);
    core::mem::forget(g);
}}
crate::vharness! { unwind = 7; fn probe_const_c() {
    let mut g = pre2();
    let e = g.edges_map.get(&1).is_some();
    if e {
        let r = g.add_edge(edge(0, 2, 1.0));
        core::mem::forget(r);
    }
    assert!(g.nodes_vec.len() == 2);
    core::mem::forget(g);
}}
crate::vharness! { unwind = 7; fn probe_const_d() {
    let mut g = pre2();
    let e = g.nodes_map.get(&Nm(1)).is_some();
    if e {
        let r = g.add_edge(edge(0, 2, 1.0));
        core::mem::forget(r);
    }
    assert!(g.nodes_vec.len() == 2);
    core::mem::forget(g);
}}

fn heavy(g: &mut G) {
    let r = g.add_edge(edge(0, 2, 1.0));
    core::mem::forget(r);
}
#[inline(never)]
fn mk1(x: &u8, fail: bool) -> Result<&u8, crate::Error> {
    if fail { Err(crate::Error { kind: crate::ErrorKind::EdgeNotFound, message: String::new() }) } else { Ok(x) }
}
#[inline(never)]
fn mk2(x: &u8, fail: bool) -> Result<&u8, crate::Error> {
    if fail { Err(crate::Error { kind: crate::ErrorKind::EdgeNotFound, message: format!("no {}", 1) }) } else { Ok(x) }
}
#[inline(never)]
fn mk3(x: &u8, fail: bool) -> Result<&u8, crate::ErrorKind> {
    if fail { Err(crate::ErrorKind::EdgeNotFound) } else { Ok(x) }
}
#[inline(never)]
fn mk4(x: &u8, fail: bool) -> Result<&u8, crate::Error> {
    if fail { Err(crate::Error { kind: crate::ErrorKind::EdgeNotFound, message: "abc".to_string() }) } else { Ok(x) }
}
crate::vharness! { unwind = 7; fn probe_res_1() { let mut g = pre2(); let x = 3u8; if mk1(&x, true).is_ok() { heavy(&mut g); } assert!(g.nodes_vec.len() == 2); core::mem::forget(g); }}
crate::vharness! { unwind = 7; fn probe_res_2() { let mut g = pre2(); let x = 3u8; if mk2(&x, true).is_ok() { heavy(&mut g); } assert!(g.nodes_vec.len() == 2); core::mem::forget(g); }}
crate::vharness! { unwind = 7; fn probe_res_3() { let mut g = pre2(); let x = 3u8; if mk3(&x, true).is_ok() { heavy(&mut g); } assert!(g.nodes_vec.len() == 2); core::mem::forget(g); }}
crate::vharness! { unwind = 7; fn probe_res_4() { let mut g = pre2(); let x = 3u8; if mk4(&x, true).is_ok() { heavy(&mut g); } assert!(g.nodes_vec.len() == 2); core::mem::forget(g); }}
