//! K-ac harnesses for C15, child module of graphrs::graph::convert (get_subgraph lives in
//! graph::subgraph; it is reached through the public method).
use super::*;
use crate::graph::verif_model::*;
use crate::vk::*;
use crate::{vassert, vcover};
use crate::ErrorKind;

fn model_of(sh: &Shape, directed: bool, multi: bool) -> RefGraph {
    let ps = permissive(directed, multi);
    let mut m = RefGraph::empty();
    let mut i = 0;
    while i < sh.nodes.len() {
        m.add_node(sh.nodes[i].0, sh.nodes[i].1);
        i += 1;
    }
    let mut k = 0;
    while k < sh.edges.len() {
        let _ = m.add_edge(&ps, sh.edges[k].0, sh.edges[k].1, sh.edges[k].2);
        k += 1;
    }
    m
}

fn is_wrong_method<T>(r: &Result<T, crate::Error>) -> bool {
    match r {
        Err(e) => matches!(e.kind, ErrorKind::WrongMethod),
        Ok(_) => false,
    }
}

fn in_set(set: u8, x: u8) -> bool {
    // bit i of `set` selects the name [2,0,1,3][i]
    let idx = match x {
        2 => 0,
        0 => 1,
        1 => 2,
        _ => 3,
    };
    (set >> idx) & 1 == 1
}

/// get_subgraph(S) for a concrete S (bitmask over [2,0,1,3]).
fn c15_subgraph(directed: bool, multi: bool, s: u8, set: u8) {
    let sh = match shape(directed, multi, s) {
        Some(x) => x,
        None => return,
    };
    let g = build_direct(permissive(directed, multi), &sh.nodes, &sh.edges);
    let src = model_of(&sh, directed, multi);
    let mut names: Vec<Nm> = Vec::with_capacity(4);
    // request order differs from graph order on purpose
    for x in [3u8, 1, 0, 2].iter() {
        if in_set(set, *x) {
            names.push(Nm(*x));
        }
    }
    let sub = g.get_subgraph(&names);
    let mut want = RefGraph::empty();
    let mut i = 0;
    while i < src.n {
        if in_set(set, src.names[i]) {
            want.add_node(src.names[i], src.attrs[i]);
        }
        i += 1;
    }
    let mut k = 0;
    while k < src.m {
        if in_set(set, src.eu[k]) && in_set(set, src.ev[k]) {
            want.eu[want.m] = src.eu[k];
            want.ev[want.m] = src.ev[k];
            want.ew[want.m] = src.ew[k];
            want.m += 1;
        }
        k += 1;
    }
    let got = alpha(&sub);
    vassert!(got.same_as(&want, directed), "get_subgraph is the induced subgraph (existing nodes of S in original order with attributes, edges with both ends in S)");
    vassert!(rep_inv(&sub, &got), "the subgraph satisfies the representation invariant");
    vassert!(sub.specs.directed == directed && sub.specs.multi_edges == multi, "the subgraph keeps the specs");
    let after = alpha(&g);
    vassert!(after.same_as(&src, directed), "get_subgraph leaves the source graph unchanged");
    vcover!(true, "reached end");
    core::mem::forget(sub);
    core::mem::forget(g);
    core::mem::forget(sh);
    core::mem::forget(names);
}

/// reverse (+ twice = identity), set_all_edge_weights.
fn c15_reverse_reweight(directed: bool, multi: bool, s: u8) {
    let sh = match shape(directed, multi, s) {
        Some(x) => x,
        None => return,
    };
    let g = build_direct(permissive(directed, multi), &sh.nodes, &sh.edges);
    let src = model_of(&sh, directed, multi);
    let r = g.reverse();
    if !directed {
        vassert!(is_wrong_method(&r), "reverse refuses undirected graphs");
    } else {
        vassert!(r.is_ok(), "reverse succeeds on directed graphs");
        let rg = r.as_ref().unwrap();
        let mut want = src;
        let mut k = 0;
        while k < want.m {
            let t = want.eu[k];
            want.eu[k] = want.ev[k];
            want.ev[k] = t;
            k += 1;
        }
        let got = alpha(rg);
        vassert!(got.same_as(&want, true), "reverse flips every edge keeping nodes, weights and parallel edges");
        vassert!(rep_inv(rg, &got), "the reversed graph satisfies the representation invariant");
        let rr = rg.reverse();
        vassert!(rr.is_ok(), "reverse of the reverse succeeds");
        let back = alpha(rr.as_ref().unwrap());
        vassert!(back.same_as(&src, true), "reversing twice restores the graph");
        core::mem::forget(rr);
    }
    core::mem::forget(r);
    let w = any_f64();
    let rw = g.set_all_edge_weights(w);
    let mut want = src;
    let mut k = 0;
    while k < want.m {
        want.ew[k] = w;
        k += 1;
    }
    let got = alpha(&rw);
    vassert!(got.same_as(&want, directed), "set_all_edge_weights keeps nodes and edges and sets every weight");
    vassert!(rep_inv(&rw, &got), "the reweighted graph satisfies the representation invariant");
    let after = alpha(&g);
    vassert!(after.same_as(&src, directed), "reverse / set_all_edge_weights leave the source graph unchanged");
    vcover!(true, "reached end");
    core::mem::forget(rw);
    core::mem::forget(g);
    core::mem::forget(sh);
}

/// to_single_edges: one edge per group of parallel edges, weight = the group's sum.
fn c15_collapse(directed: bool, multi: bool, s: u8) {
    // arbitrary f64 weights incl. NaN (a group mixing weighted and unweighted edges sums to NaN): the
    // group sum is taken in insertion order by both the implementation and the reference
    let sh = match shape_w(directed, multi, s, false) {
        Some(x) => x,
        None => return,
    };
    let g = build_direct(permissive(directed, multi), &sh.nodes, &sh.edges);
    let src = model_of(&sh, directed, multi);
    let r = g.to_single_edges();
    if !multi {
        vassert!(is_wrong_method(&r), "to_single_edges refuses single-edge graphs");
    } else {
        vassert!(r.is_ok(), "to_single_edges succeeds on multi-edge graphs");
        let cg = r.as_ref().unwrap();
        let mut want = RefGraph::empty();
        let mut i = 0;
        while i < src.n {
            want.add_node(src.names[i], src.attrs[i]);
            i += 1;
        }
        let mut k = 0;
        while k < src.m {
            // first member of its group?
            let (u, v) = (src.eu[k], src.ev[k]);
            let mut first = true;
            let mut j = 0;
            while j < k {
                if (src.eu[j] == u && src.ev[j] == v) || (!directed && src.eu[j] == v && src.ev[j] == u) {
                    first = false;
                }
                j += 1;
            }
            if first {
                let mut sum = -0.0; // f64's Sum starts from -0.0
                let mut j = 0;
                while j < src.m {
                    if (src.eu[j] == u && src.ev[j] == v) || (!directed && src.eu[j] == v && src.ev[j] == u) {
                        sum += src.ew[j];
                    }
                    j += 1;
                }
                want.eu[want.m] = u;
                want.ev[want.m] = v;
                want.ew[want.m] = sum;
                want.m += 1;
            }
            k += 1;
        }
        let got = alpha(cg);
        vassert!(got.same_as(&want, directed), "to_single_edges keeps the nodes and sums each group of parallel edges");
        vassert!(!cg.specs.multi_edges && cg.specs.directed == directed, "the collapsed graph is a single-edge graph of the same direction");
        vassert!(rep_inv(cg, &got), "the collapsed graph satisfies the representation invariant");
        vcover!(got.m < src.m, "a group was collapsed");
    }
    let after = alpha(&g);
    vassert!(after.same_as(&src, directed), "to_single_edges leaves the source graph unchanged");
    vcover!(true, "reached end");
    core::mem::forget(r);
    core::mem::forget(g);
    core::mem::forget(sh);
}

/// reverse on the smallest graph with a reciprocal pair of different weights.
fn c15_reverse_reciprocal(multi: bool) {
    let (w1, w2) = (any_f64(), any_f64());
    let nodes: Vec<(u8, Option<u8>)> = vec![(2, None), (0, Some(any_u8()))];
    let edges: Vec<(u8, u8, f64)> = vec![(2, 0, w1), (0, 2, w2)];
    let g = build_direct(permissive(true, multi), &nodes, &edges);
    let r = g.reverse();
    vassert!(r.is_ok(), "reverse succeeds on directed graphs");
    let rg = r.as_ref().unwrap();
    let got = alpha(rg);
    let mut want = RefGraph::empty();
    want.add_node(2, None);
    want.add_node(0, nodes[1].1);
    want.eu[0] = 0;
    want.ev[0] = 2;
    want.ew[0] = w1;
    want.eu[1] = 2;
    want.ev[1] = 0;
    want.ew[1] = w2;
    want.m = 2;
    vassert!(got.same_as(&want, true), "reverse flips every edge keeping nodes, weights and parallel edges");
    vassert!(pair_coherent(rg, &got, 2, 0) && pair_coherent(rg, &got, 0, 2), "the reversed graph's indexes are coherent");
    vcover!(w1 != w2, "different weights");
    core::mem::forget(r);
    core::mem::forget(g);
}
crate::vharness! { unwind = 9; fn c15_rev_reciprocal_ds() { c15_reverse_reciprocal(false) } }
crate::vharness! { unwind = 9; fn c15_rev_reciprocal_dm() { c15_reverse_reciprocal(true) } }

include!("gen_convert_ac.rs");
