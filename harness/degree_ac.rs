//! K-ac harnesses for C09, child module of graphrs::graph::degree.
use super::*;
use crate::algorithms::centrality::degree::degree_centrality;
use crate::graph::verif_model::*;
use crate::vk::*;
use crate::{vassert, vcover};

fn deg_oracle(sh: &Shape, x: u8) -> (usize, usize, usize) {
    // (degree, in, out): a self-loop adds two to the degree, one to in and one to out
    let (mut i, mut o) = (0, 0);
    let mut k = 0;
    while k < sh.edges.len() {
        let (a, b, _) = sh.edges[k];
        if b == x {
            i += 1;
        }
        if a == x {
            o += 1;
        }
        k += 1;
    }
    (i + o, i, o)
}

fn wdeg_oracle(sh: &Shape, x: u8) -> (f64, f64, f64) {
    let (mut i, mut o) = (0.0, 0.0);
    let mut k = 0;
    while k < sh.edges.len() {
        let (a, b, w) = sh.edges[k];
        if b == x {
            i += w;
        }
        if a == x {
            o += w;
        }
        k += 1;
    }
    (i + o, i, o)
}

/// Counts and unweighted degrees.
fn c09_counts(directed: bool, multi: bool, s: u8) {
    let sh = match shape_w(directed, multi, s, true) {
        Some(x) => x,
        None => return,
    };
    let g = build_direct(permissive(directed, multi), &sh.nodes, &sh.edges);
    let m = sh.edges.len();
    vassert!(g.number_of_nodes() == 3, "number_of_nodes");
    vassert!(g.size(false) == m as f64, "size(false) counts every stored edge");
    vassert!(g.number_of_edges() == m, "number_of_edges counts parallel edges individually");
    let mut wsum = 0.0;
    let mut k = 0;
    while k < m {
        wsum += sh.edges[k].2;
        k += 1;
    }
    vassert!(g.size(true) == wsum, "size(true) is the sum of the edge weights");
    let names = [2u8, 0, 1];
    let all = g.get_degree_for_all_nodes();
    let ins = g.get_in_degree_for_all_nodes();
    let outs = g.get_out_degree_for_all_nodes();
    vassert!(ins.is_ok() == directed && outs.is_ok() == directed, "in/out degree maps exist exactly on directed graphs");
    let (mut sd, mut si, mut so) = (0, 0, 0);
    let mut i = 0;
    while i < 3 {
        let x = names[i];
        let (d, di, dout) = deg_oracle(&sh, x);
        let got = g.get_node_degree(Nm(x));
        vassert!(got == Some(d), "get_node_degree: edges touching the node, a self-loop adds two");
        vassert!(all.get(&Nm(x)) == Some(&d), "get_degree_for_all_nodes");
        sd += got.unwrap_or(0);
        if directed {
            let gi = g.get_node_in_degree(Nm(x));
            let go = g.get_node_out_degree(Nm(x));
            vassert!(gi == Some(di) && go == Some(dout), "in- and out-degree");
            vassert!(got == Some(gi.unwrap_or(0) + go.unwrap_or(0)), "degree = in-degree + out-degree");
            vassert!(ins.as_ref().unwrap().get(&Nm(x)) == Some(&di), "get_in_degree_for_all_nodes");
            vassert!(outs.as_ref().unwrap().get(&Nm(x)) == Some(&dout), "get_out_degree_for_all_nodes");
            si += di;
            so += dout;
        }
        i += 1;
    }
    vassert!(sd == 2 * m, "handshake: degrees sum to twice the number of edges");
    if directed {
        vassert!(si == m && so == m, "in- and out-degrees each sum to the number of edges");
    }
    vassert!(g.get_node_degree(Nm(3)).is_none(), "degree of an absent node is None");
    vcover!(true, "reached end");
    core::mem::forget(all);
    core::mem::forget(ins);
    core::mem::forget(outs);
    core::mem::forget(g);
    core::mem::forget(sh);
}

/// Weighted degrees (integer weights 1..=8: exact sums), density, degree centrality.
fn c09_weighted(directed: bool, multi: bool, s: u8) {
    let sh = match shape_w(directed, multi, s, true) {
        Some(x) => x,
        None => return,
    };
    let g = build_direct(permissive(directed, multi), &sh.nodes, &sh.edges);
    let m = sh.edges.len();
    let names = [2u8, 0, 1];
    let all = g.get_weighted_degree_for_all_nodes();
    let ins = g.get_weighted_in_degree_for_all_nodes();
    let outs = g.get_weighted_out_degree_for_all_nodes();
    let cent = degree_centrality(&g);
    let mut i = 0;
    while i < 3 {
        let x = names[i];
        let (d, di, dout) = wdeg_oracle(&sh, x);
        let got = g.get_node_weighted_degree(Nm(x));
        vassert!(got == Some(d), "get_node_weighted_degree");
        vassert!(all.get(&Nm(x)) == Some(&d), "get_weighted_degree_for_all_nodes");
        if directed {
            vassert!(g.get_node_weighted_in_degree(Nm(x)) == Some(di), "weighted in-degree");
            vassert!(g.get_node_weighted_out_degree(Nm(x)) == Some(dout), "weighted out-degree");
            vassert!(ins.as_ref().unwrap().get(&Nm(x)) == Some(&di), "get_weighted_in_degree_for_all_nodes");
            vassert!(outs.as_ref().unwrap().get(&Nm(x)) == Some(&dout), "get_weighted_out_degree_for_all_nodes");
        }
        let (du, _, _) = deg_oracle(&sh, x);
        vassert!(cent.get(&Nm(x)) == Some(&(du as f64 / 2.0)), "degree_centrality is degree/(n-1)");
        i += 1;
    }
    if !multi {
        let want = if directed { m as f64 / 6.0 } else { 2.0 * m as f64 / 6.0 };
        vassert!(g.get_density() == want, "density of a single-edge graph");
    }
    vcover!(true, "reached end");
    core::mem::forget(all);
    core::mem::forget(ins);
    core::mem::forget(outs);
    core::mem::forget(cent);
    core::mem::forget(g);
    core::mem::forget(sh);
}

/// Two-node graphs: degree_centrality is degree/(n-1) = degree, density with n = 2.
fn c09_small(directed: bool, multi: bool, s: u8) {
    let w = any_small_weight();
    let nodes: Vec<(u8, Option<u8>)> = vec![(2, None), (0, None)];
    let edges: Vec<(u8, u8, f64)> = match s {
        0 => vec![(2, 0, w)],
        1 => vec![],
        _ => vec![(2, 2, w)],
    };
    let g = build_direct(permissive(directed, multi), &nodes, &edges);
    let sh = Shape { nodes, edges };
    let cent = degree_centrality(&g);
    vassert!(cent.len() == 2, "degree_centrality has one entry per node");
    let names = [2u8, 0];
    let mut sd = 0;
    let mut i = 0;
    while i < 2 {
        let (d, di, dout) = deg_oracle(&sh, names[i]);
        vassert!(g.get_node_degree(Nm(names[i])) == Some(d), "get_node_degree");
        vassert!(cent.get(&Nm(names[i])) == Some(&(d as f64)), "degree_centrality is degree/(n-1)");
        if directed {
            vassert!(g.get_node_in_degree(Nm(names[i])) == Some(di) && g.get_node_out_degree(Nm(names[i])) == Some(dout), "in- and out-degree");
        }
        sd += d;
        i += 1;
    }
    vassert!(sd == 2 * sh.edges.len(), "handshake: degrees sum to twice the number of edges");
    vassert!(g.number_of_edges() == sh.edges.len() && g.number_of_nodes() == 2, "counts");
    if !multi && s != 2 {
        let m = sh.edges.len() as f64;
        let want = if directed { m / 2.0 } else { 2.0 * m / 2.0 };
        vassert!(g.get_density() == want, "density of a single-edge graph");
    }
    vcover!(true, "reached end");
    core::mem::forget(cent);
    core::mem::forget(g);
    core::mem::forget(sh);
}

include!("gen_degree_ac.rs");
