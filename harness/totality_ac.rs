//! K-ac harnesses for C20, child module of graphrs::algorithms: every public algorithm / query on
//! degenerate graphs returns a value or an Error -- no panic (unwrap on an internal lookup, index
//! out of bounds, integer overflow: the harnesses run in Kani's debug model with overflow checks).
//! Assertion-free bodies: the decided checks are the panics / overflow assertions of the real code.
//! Graph shapes and kinds are generator-enumerated constants; weights symbolic where it matters.
use crate::algorithms::{centrality, cluster, community, components, shortest_path};
use crate::graph::verif_model::*;
use crate::vk::*;
use crate::{vassert, vcover};
use crate::{ErrorKind, GraphSpecs};

/// Degenerate shape catalogue (nodes, edges). `None` if not admissible for the kind.
fn degenerate(directed: bool, multi: bool, self_loops: bool, s: u8) -> Option<G> {
    let w = any_small_weight();
    let (nodes, edges): (Vec<(u8, Option<u8>)>, Vec<(u8, u8, f64)>) = match s {
        0 => (vec![], vec![]),                                            // empty graph
        1 => (vec![(2, None)], vec![]),                                   // single node
        2 => (vec![(2, None), (0, None)], vec![]),                        // edgeless pair
        3 => {
            if !self_loops {
                return None;
            }
            (vec![(2, None), (0, None)], vec![(2, 2, w)])                 // self-loop + isolated node
        }
        4 => {
            if !multi {
                return None;
            }
            (vec![(2, None), (0, None)], vec![(2, 0, w), (2, 0, 1.0)])    // parallel edges
        }
        5 => (vec![(2, None), (0, None), (1, None)], vec![(2, 0, w)]),    // an edge plus an isolated node
        _ => {
            if !self_loops {
                return None;
            }
            // triangle with a self-loop on one corner
            (vec![(2, None), (0, None), (1, None)], vec![(2, 0, w), (0, 1, 1.0), (1, 2, 2.0), (0, 0, 1.0)])
        }
    };
    let specs = GraphSpecs { self_loops, ..permissive(directed, multi) };
    Some(build_direct(specs, &nodes, &edges))
}

fn uses_error_channel<T>(r: &Result<T, crate::Error>) -> bool {
    // any Ok or any Err is acceptable; the point is that we got here without a panic
    match r {
        Ok(_) => true,
        Err(_) => true,
    }
}

fn c20_group(directed: bool, multi: bool, self_loops: bool, s: u8, group: u8) {
    let g = match degenerate(directed, multi, self_loops, s) {
        Some(x) => x,
        None => return,
    };
    let first = if g.number_of_nodes() > 0 { Some(Nm(2)) } else { None };
    match group {
        0 => {
            // cluster functions, whole graph
            let a = cluster::clustering(&g, false, None);
            let b = cluster::average_clustering(&g, false, None, true);
            let c = cluster::triangles(&g, None);
            let d = cluster::transitivity(&g);
            let e = cluster::generalized_degree(&g, None);
            vassert!(uses_error_channel(&a) && uses_error_channel(&b) && uses_error_channel(&c) && uses_error_channel(&d) && uses_error_channel(&e), "returned");
            core::mem::forget((a, b, c, d, e));
        }
        1 => {
            // cluster functions, one existing node as subset; square clustering
            if let Some(x) = first {
                let sel = [x];
                let a = cluster::clustering(&g, false, Some(&sel));
                let c = cluster::triangles(&g, Some(&sel));
                let e = cluster::generalized_degree(&g, Some(&sel));
                let f = cluster::square_clustering(&g, Some(&sel));
                vassert!(uses_error_channel(&a) && uses_error_channel(&c) && uses_error_channel(&e), "returned");
                core::mem::forget((a, c, e, f));
            }
            let f = cluster::square_clustering(&g, None);
            core::mem::forget(f);
        }
        2 => {
            // components
            let a = components::connected_components(&g);
            let b = components::weakly_connected_components(&g);
            let c = components::strongly_connected_components(&g);
            let d = components::number_of_connected_components(&g);
            vassert!(uses_error_channel(&a) && uses_error_channel(&b) && uses_error_channel(&c) && uses_error_channel(&d), "returned");
            core::mem::forget((a, b, c, d));
            if let Some(x) = first {
                let e = components::node_connected_component(&g, &x);
                core::mem::forget(e);
                let p = components::bfs_equal_size_partitions(&g, 1);
                let q = components::bfs_equal_size_partitions(&g, 2);
                core::mem::forget((p, q));
            }
            // a Result-returning function given an absent name must use its error channel
            let e = components::node_connected_component(&g, &Nm(9));
            vassert!(uses_error_channel(&e), "returned");
            core::mem::forget(e);
        }
        3 => {
            // degrees, density, centralities without search
            let a = g.get_density();
            let b = centrality::degree::degree_centrality(&g);
            let c = g.get_degree_for_all_nodes();
            let d = g.get_weighted_degree_for_all_nodes();
            let e = g.get_in_degree_for_all_nodes();
            let f = g.get_node_degree(Nm(9));
            core::mem::forget((a, b, c, d, e, f));
            let h = g.to_single_edges();
            let i = g.reverse();
            let j = g.set_all_edge_weights(1.5);
            let k = g.get_subgraph(&[Nm(2), Nm(9)]);
            vassert!(uses_error_channel(&h) && uses_error_channel(&i), "returned");
            core::mem::forget((h, i, j, k));
        }
        4 => {
            // (betweenness_centrality / closeness_centrality cannot be compiled by Kani 0.68: their
            // bodies contain the rayon branch, whose catch_unwind intrinsic crashes kani-compiler;
            // their kernels run under C05 / C06.) Here: queries that must not panic on degenerate graphs.
            let a = g.get_all_edges();
            let b = g.get_all_node_names();
            let c = g.get_edges_for_node(Nm(9));
            let d = g.get_neighbor_nodes(Nm(9));
            let e = g.get_successor_nodes(Nm(9));
            let f = g.get_edges_for_nodes(&[Nm(9)]);
            vassert!(uses_error_channel(&c) && uses_error_channel(&d) && uses_error_channel(&e) && uses_error_channel(&f), "returned");
            core::mem::forget((a, b, c, d, e, f));
            if let Some(x) = first {
                let h = g.breadth_first_search(&x);
                let i = g.get_edges_for_node(x);
                let j = g.get_neighbor_nodes(x);
                core::mem::forget((h, i, j));
            }
        }
        5 => {
            // single_source incl. absent source / target through the Result channel (all_pairs /
            // multi_source contain the rayon branch and cannot be compiled, see group 4)
            let c = shortest_path::dijkstra::single_source(&g, false, Nm(9), None, None, false, false);
            vassert!(uses_error_channel(&c), "returned");
            core::mem::forget(c);
            if let Some(x) = first {
                let e = shortest_path::dijkstra::single_source(&g, false, x, Some(Nm(9)), None, false, true);
                let f = shortest_path::dijkstra::single_source(&g, false, x, None, None, false, true);
                vassert!(uses_error_channel(&e) && uses_error_channel(&f), "returned");
                core::mem::forget((e, f));
            }
        }
        6 => {
            // partitions on the singleton partition
            let mut fam: Vec<HashSetT<Nm>> = Vec::with_capacity(3);
            for nd in g.get_all_node_names() {
                let mut hs: HashSetT<Nm> = HashSetT::new();
                hs.insert(*nd);
                fam.push(hs);
            }
            let a = community::partitions::is_partition(&g, &fam);
            let b = community::partitions::modularity(&g, &fam, false, None);
            vassert!(uses_error_channel(&b), "returned");
            core::mem::forget((a, b, fam));
        }
        8 => {
            // weighted searches with constant weights that contain a tie (2->1 directly = 2->0->1) and,
            // on self-loop kinds, a zero-weight self-loop; every option combination symbolic
            let zero_loop = self_loops && s == 6;
            let mut edges = vec![(2u8, 0u8, 1.0f64), (0, 1, 1.0), (2, 1, 2.0)];
            if zero_loop {
                edges.push((0, 0, 0.0));
            }
            let specs = GraphSpecs { self_loops, ..permissive(directed, multi) };
            let tg = build_direct(specs, &[(2, None), (0, None), (1, None)], &edges);
            let target = if any_bool() { Some(Nm(1)) } else { None };
            let cutoff = if any_bool() { Some(2.0) } else { None };
            let r = shortest_path::dijkstra::single_source(&tg, true, Nm(2), target, cutoff, any_bool(), any_bool());
            vassert!(uses_error_channel(&r), "returned");
            core::mem::forget((r, tg, edges));
        }
        9 => {
            // weighted searches with every input constant (the engine then acts as a bounded executor of
            // the real BinaryHeap code): a zero-weight self-loop must not keep the search alive, and a
            // tie with with_paths = false must not touch the (empty) path table
            let edges = vec![(2u8, 0u8, 1.0f64), (0, 1, 1.0), (2, 1, 2.0), (0, 0, 0.0)];
            let specs = GraphSpecs { self_loops: true, ..permissive(directed, false) };
            let tg = build_direct(specs, &[(2, None), (0, None), (1, None)], &edges);
            let a = shortest_path::dijkstra::single_source(&tg, true, Nm(2), None, None, false, false);
            vassert!(uses_error_channel(&a), "returned");
            core::mem::forget(a);
            if s == 5 {
                let b = shortest_path::dijkstra::single_source(&tg, true, Nm(2), Some(Nm(1)), None, false, false);
                vassert!(uses_error_channel(&b), "returned");
                core::mem::forget(b);
            } else {
                let c = shortest_path::dijkstra::single_source(&tg, true, Nm(2), None, Some(2.0), false, false);
                vassert!(uses_error_channel(&c), "returned");
                core::mem::forget(c);
            }
            core::mem::forget((tg, edges));
        }
        _ => {
            // eigenvector centrality (one iteration is enough to reach every lookup)
            let a = centrality::eigenvector::eigenvector_centrality(&g, false, Some(1), None);
            vassert!(uses_error_channel(&a), "returned");
            core::mem::forget(a);
        }
    }
    vcover!(true, "reached end");
    core::mem::forget(g);
}

pub fn powf_stub(x: f64, e: f64) -> f64 {
    if e == 2.0 {
        x * x
    } else {
        any_f64()
    }
}

macro_rules! c20_harness {
    ($name:ident, $d:expr, $m:expr, $l:expr, $s:expr, $g:expr) => {
        #[cfg_attr(
            kani,
            kani::proof,
            kani::unwind(9),
            kani::stub(alloc::fmt::format, crate::vk::stub_format),
            kani::stub(f64::powf, powf_stub)
        )]
        #[cfg_attr(all(feature = "verif_replay", not(kani)), test)]
        #[allow(dead_code)]
        fn $name() {
            crate::vk::begin(stringify!($name));
            c20_group($d, $m, $l, $s, $g);
            crate::vk::end();
        }
    };
}

include!("gen_totality_ac.rs");
