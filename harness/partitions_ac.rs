//! K-ac harnesses for C12, child module of graphrs::algorithms::community::partitions.
use super::*;
use crate::graph::verif_model::*;
use crate::vk::*;
use crate::{vassert, vcover};
use crate::ErrorKind;

/// Family of <= 3 sets over the names {2,0,1,3} given by a symbolic 3x4 membership matrix. The
/// sets are built by unconditional inserts of a *selected* element list so that the container
/// shape stays simple: each set is created from the (symbolic) subset of [2,0,1,3].
fn family(nsets: usize) -> (Vec<HashSetT<Nm>>, [[bool; 4]; 3]) {
    let names = [2u8, 0, 1, 3];
    let mut mem = [[false; 4]; 3];
    let mut fam: Vec<HashSetT<Nm>> = Vec::with_capacity(3);
    let mut c = 0;
    while c < nsets {
        let mut hs: HashSetT<Nm> = HashSetT::new();
        let mut i = 0;
        while i < 4 {
            let b = any_bool();
            mem[c][i] = b;
            if b {
                hs.insert(Nm(names[i]));
            }
            i += 1;
        }
        fam.push(hs);
        c += 1;
    }
    (fam, mem)
}

/// Set-theoretic definition: pairwise disjoint, only graph nodes, covering every node.
fn is_partition_def(mem: &[[bool; 4]; 3], nsets: usize) -> bool {
    let mut ok = true;
    let mut i = 0;
    while i < 4 {
        let mut c = 0;
        let mut k = 0;
        while k < nsets {
            if mem[k][i] {
                c += 1;
            }
            k += 1;
        }
        if i < 3 {
            if c != 1 {
                ok = false; // graph node: in exactly one set
            }
        } else if c != 0 {
            ok = false; // foreign node
        }
        i += 1;
    }
    ok
}

fn c12_is_partition(directed: bool, nsets: usize) {
    let sh = shape(directed, false, 0).unwrap();
    let g = build_direct(permissive(directed, false), &sh.nodes, &sh.edges);
    let (fam, mem) = family(nsets);
    let want = is_partition_def(&mem, nsets);
    let got = is_partition(&g, &fam);
    vcover!(want, "a true partition");
    vcover!(!want, "not a partition");
    vcover!(!want && got, "accepted although not a partition");
    vassert!(got == want, "is_partition is true iff the communities are pairwise disjoint, contain only graph nodes and cover every node");
    core::mem::forget(fam);
    core::mem::forget(g);
    core::mem::forget(sh);
}

/// modularity: NotAPartition iff not a partition (value checked by c12_modularity_value).
fn c12_modularity_guard(directed: bool, nsets: usize) {
    let sh = shape_w(directed, false, 0, true).unwrap();
    let g = build_direct(permissive(directed, false), &sh.nodes, &sh.edges);
    let (fam, mem) = family(nsets);
    let want = is_partition_def(&mem, nsets);
    let r = modularity(&g, &fam, false, None);
    let rejected = match &r {
        Err(e) => matches!(e.kind, ErrorKind::NotAPartition),
        Ok(_) => false,
    };
    vcover!(want, "a true partition");
    vassert!(rejected == !want, "modularity rejects exactly the families that are not partitions");
    core::mem::forget(r);
    core::mem::forget(fam);
    core::mem::forget(g);
    core::mem::forget(sh);
}

/// modularity value for the concrete partition `part` (0: {2,0},{1}; 1: {2},{0},{1}; 2: {2,0,1})
/// against Newman's formula; integer weights; resolution 1 and a symbolic power-of-two one.
fn c12_modularity_value(directed: bool, multi: bool, s: u8, part: u8, weighted: bool) {
    let sh = match shape_w(directed, multi, s, true) {
        Some(x) => x,
        None => return,
    };
    let g = build_direct(permissive(directed, multi), &sh.nodes, &sh.edges);
    let groups: Vec<Vec<u8>> = match part {
        0 => vec![vec![2, 0], vec![1]],
        1 => vec![vec![2], vec![0], vec![1]],
        _ => vec![vec![2, 0, 1]],
    };
    let mut fam: Vec<HashSetT<Nm>> = Vec::with_capacity(3);
    for grp in groups.iter() {
        let mut hs: HashSetT<Nm> = HashSetT::new();
        for x in grp.iter() {
            hs.insert(Nm(*x));
        }
        fam.push(hs);
    }
    let res_pick = any_u8();
    assume(res_pick < 3);
    let resolution = [0.5f64, 1.0, 2.0][res_pick as usize];
    let r = modularity(&g, &fam, weighted, Some(resolution));
    vassert!(r.is_ok(), "modularity accepts a true partition");
    let got = *r.as_ref().unwrap();
    // Newman's formula over the edge list
    let wt = |k: usize| if weighted { sh.edges[k].2 } else { 1.0 };
    let mut m = 0.0;
    let mut k = 0;
    while k < sh.edges.len() {
        m += wt(k);
        k += 1;
    }
    let mut q = 0.0;
    for grp in groups.iter() {
        let inside = |x: u8| grp.iter().any(|y| *y == x);
        let mut lc = 0.0;
        let mut out_deg = 0.0;
        let mut in_deg = 0.0;
        let mut k = 0;
        while k < sh.edges.len() {
            let (a, b, _) = sh.edges[k];
            if inside(a) && inside(b) {
                lc += wt(k);
            }
            if inside(a) {
                out_deg += wt(k);
            }
            if inside(b) {
                in_deg += wt(k);
            }
            k += 1;
        }
        if directed {
            q += lc / m - resolution * out_deg * in_deg / (m * m);
        } else {
            let deg = out_deg + in_deg; // a self-loop counts twice
            q += lc / m - resolution * (deg / (2.0 * m)) * (deg / (2.0 * m));
        }
    }
    let diff = if got > q { got - q } else { q - got };
    vassert!(diff <= 1e-9, "modularity equals Newman's formula");
    vcover!(true, "reached end");
    core::mem::forget(r);
    core::mem::forget(fam);
    core::mem::forget(groups);
    core::mem::forget(g);
    core::mem::forget(sh);
}

/// powf(x, 2.0) contract stub: Kani models powf nondeterministically.
pub fn powf_stub(x: f64, e: f64) -> f64 {
    if e == 2.0 {
        x * x
    } else {
        any_f64()
    }
}

macro_rules! c12_value_harness {
    ($name:ident, $d:expr, $m:expr, $s:expr, $p:expr, $w:expr) => {
        #[cfg_attr(
            kani,
            kani::proof,
            kani::unwind(9),
            kani::stub(alloc::fmt::format, crate::vk::stub_format),
            kani::stub(f64::powf, powf_stub)
        )]
        #[cfg_attr(all(feature = "verif_replay", not(kani)), test)]
        #[allow(dead_code)]
        fn $name() {
            crate::vk::begin(stringify!($name));
            c12_modularity_value($d, $m, $s, $p, $w);
            crate::vk::end();
        }
    };
}
macro_rules! c12_guard_harness {
    ($name:ident, $d:expr, $n:expr) => {
        #[cfg_attr(
            kani,
            kani::proof,
            kani::unwind(9),
            kani::stub(alloc::fmt::format, crate::vk::stub_format),
            kani::stub(f64::powf, powf_stub)
        )]
        #[cfg_attr(all(feature = "verif_replay", not(kani)), test)]
        #[allow(dead_code)]
        fn $name() {
            crate::vk::begin(stringify!($name));
            c12_modularity_guard($d, $n);
            crate::vk::end();
        }
    };
}

crate::vharness! { unwind = 9; fn c12_ispart_u_2sets() { c12_is_partition(false, 2) } }
crate::vharness! { unwind = 9; fn c12_ispart_d_2sets() { c12_is_partition(true, 2) } }
crate::vharness! { unwind = 9; fn c12_ispart_u_3sets() { c12_is_partition(false, 3) } }
crate::vharness! { unwind = 9; fn c12_ispart_u_1set() { c12_is_partition(false, 1) } }
c12_guard_harness!(c12_modguard_u_2sets, false, 2);
c12_guard_harness!(c12_modguard_d_2sets, true, 2);
c12_value_harness!(c12_modval_us_s0_p0_w, false, false, 0, 0, true);
c12_value_harness!(c12_modval_ds_s0_p0_w, true, false, 0, 0, true);
c12_value_harness!(c12_modval_us_s1_p0_u, false, false, 1, 0, false);
c12_value_harness!(c12_modval_ds_s1_p1_w, true, false, 1, 1, true);
c12_value_harness!(c12_modval_um_s2_p0_w, false, true, 2, 0, true);
c12_value_harness!(c12_modval_um_s2_p0_u, false, true, 2, 0, false);
c12_value_harness!(c12_modval_dm_s2_p2_w, true, true, 2, 2, true);
c12_value_harness!(c12_modval_us_s5_p0_w, false, false, 5, 0, true);
c12_value_harness!(c12_modval_ds_s5_p1_u, true, false, 5, 1, false);
