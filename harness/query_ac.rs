//! K-ac harnesses for C02 (and the build_direct validation), child module of graphrs::graph::query.
//!
//! Graphs are constant shapes from a catalogue (names inserted as 2,0,1 so that name order differs
//! from position order; parallel edges in both orientations; self-loops); edge weights and node
//! attributes are symbolic. Every query is compared with an oracle over the edge list.
use super::*;
use crate::graph::verif_model::*;
use crate::vk::*;
use crate::{vassert, vcover};
use crate::{ErrorKind, GraphSpecs};

fn kind_of<T>(r: &Result<T, crate::Error>) -> u8 {
    match r {
        Ok(_) => 0,
        Err(e) => match e.kind {
            ErrorKind::WrongMethod => 1,
            ErrorKind::NodeNotFound => 2,
            ErrorKind::EdgeNotFound => 3,
            _ => 9,
        },
    }
}

/// Oracle: indexes k of the edges (in list order) between u and v.
fn pair_edges(sh: &Shape, directed: bool, u: u8, v: u8) -> Vec<usize> {
    let mut out = Vec::new();
    let mut k = 0;
    while k < sh.edges.len() {
        let (a, b, _) = sh.edges[k];
        if (a == u && b == v) || (!directed && a == v && b == u) {
            out.push(k);
        }
        k += 1;
    }
    out
}

fn same_edge(e: &Edge<Nm, u8>, sh: &Shape, k: usize, directed: bool) -> bool {
    let (a, b, w) = sh.edges[k];
    let ends = (e.u.0 == a && e.v.0 == b) || (!directed && e.u.0 == b && e.v.0 == a);
    ends && same_weight(e.weight, w)
}

/// get_edge / get_edges for every ordered pair over {2,0,1,3}.
fn c02_pairs(directed: bool, multi: bool, s: u8) {
    let sh = match shape(directed, multi, s) {
        Some(x) => x,
        None => return,
    };
    let g = build_direct(specs_of(directed, multi), &sh.nodes, &sh.edges);
    let names = [2u8, 0, 1, 3];
    let mut i = 0;
    while i < 4 {
        let mut j = 0;
        while j < 4 {
            let (u, v) = (names[i], names[j]);
            let want = pair_edges(&sh, directed, u, v);
            let r1 = g.get_edge(Nm(u), Nm(v));
            let r2 = g.get_edges(Nm(u), Nm(v));
            if multi {
                vassert!(kind_of(&r1) == 1, "get_edge on a multi-edge graph is WrongMethod");
                if !present(u) || !present(v) {
                    vassert!(kind_of(&r2) == 2, "get_edges with an absent node is NodeNotFound");
                } else if want.is_empty() {
                    vassert!(kind_of(&r2) == 3, "get_edges without an edge is EdgeNotFound");
                } else {
                    vassert!(kind_of(&r2) == 0, "get_edges finds the stored edges");
                    let es = r2.as_ref().unwrap();
                    vassert!(es.len() == want.len(), "get_edges returns every parallel edge");
                    let mut k = 0;
                    while k < es.len() {
                        vassert!(same_edge(&es[k], &sh, want[k], directed), "get_edges keeps insertion order and weights");
                        k += 1;
                    }
                    vcover!(es.len() >= 2, "parallel edges retrieved");
                }
            } else {
                vassert!(kind_of(&r2) == 1, "get_edges on a single-edge graph is WrongMethod");
                if !present(u) || !present(v) {
                    vassert!(kind_of(&r1) == 2, "get_edge with an absent node is NodeNotFound");
                } else if want.is_empty() {
                    vassert!(kind_of(&r1) == 3, "get_edge without an edge is EdgeNotFound");
                } else {
                    vassert!(kind_of(&r1) == 0, "get_edge finds the stored edge");
                    vassert!(same_edge(r1.as_ref().unwrap(), &sh, want[0], directed), "get_edge returns the stored edge");
                    vcover!(u > v, "edge queried against name order");
                }
            }
            core::mem::forget(r1);
            core::mem::forget(r2);
            core::mem::forget(want);
            j += 1;
        }
        i += 1;
    }
    core::mem::forget(g);
    core::mem::forget(sh);
}

/// Multiset equality between a returned edge list and the oracle's index list.
fn same_edge_multiset(got: &Vec<&std::sync::Arc<Edge<Nm, u8>>>, sh: &Shape, want: &Vec<usize>, directed: bool) -> bool {
    if got.len() != want.len() {
        return false;
    }
    // every wanted edge is matched by a distinct returned edge (greedy matching is exact here
    // because equal (endpoints, weight) edges are interchangeable)
    let mut used = [false; 8];
    let mut k = 0;
    let mut ok = true;
    while k < want.len() {
        let mut found = false;
        let mut j = 0;
        while j < got.len() {
            if !found && j < 8 && !used[j] && same_edge(got[j], sh, want[k], directed) {
                used[j] = true;
                found = true;
            }
            j += 1;
        }
        if !found {
            ok = false;
        }
        k += 1;
    }
    ok
}

fn touching(sh: &Shape, x: u8, mode: u8) -> Vec<usize> {
    // mode 0: all edges touching x (each once), 1: in-edges (v == x), 2: out-edges (u == x)
    let mut out = Vec::new();
    let mut k = 0;
    while k < sh.edges.len() {
        let (a, b, _) = sh.edges[k];
        let hit = match mode {
            0 => a == x || b == x,
            1 => b == x,
            _ => a == x,
        };
        if hit {
            out.push(k);
        }
        k += 1;
    }
    out
}

/// Per-node edge lists: all / in / out for one node.
fn c02_node_edges(directed: bool, multi: bool, s: u8) {
    let sh = match shape(directed, multi, s) {
        Some(x) => x,
        None => return,
    };
    let g = build_direct(specs_of(directed, multi), &sh.nodes, &sh.edges);
    let names = [2u8, 0, 1, 3];
    let mut i = 0;
    while i < 4 {
        let x = names[i];
        let all = g.get_edges_for_node(Nm(x));
        let ins = g.get_in_edges_for_node(Nm(x));
        let outs = g.get_out_edges_for_node(Nm(x));
        if !present(x) {
            vassert!(kind_of(&all) == 2, "get_edges_for_node with an absent node is NodeNotFound");
            if directed {
                vassert!(kind_of(&ins) == 2 && kind_of(&outs) == 2, "in/out edges with an absent node is NodeNotFound");
            }
        } else {
            vassert!(kind_of(&all) == 0, "get_edges_for_node succeeds");
            let w = touching(&sh, x, 0);
            vassert!(same_edge_multiset(all.as_ref().unwrap(), &sh, &w, directed), "get_edges_for_node lists each touching edge exactly once");
            core::mem::forget(w);
            if directed {
                let wi = touching(&sh, x, 1);
                let wo = touching(&sh, x, 2);
                vassert!(kind_of(&ins) == 0 && kind_of(&outs) == 0, "in/out edge queries succeed on directed graphs");
                vassert!(same_edge_multiset(ins.as_ref().unwrap(), &sh, &wi, true), "get_in_edges_for_node");
                vassert!(same_edge_multiset(outs.as_ref().unwrap(), &sh, &wo, true), "get_out_edges_for_node");
                core::mem::forget(wi);
                core::mem::forget(wo);
            }
        }
        if !directed {
            vassert!(kind_of(&ins) == 1 && kind_of(&outs) == 1, "in/out edge queries on undirected graphs are WrongMethod");
        }
        core::mem::forget(all);
        core::mem::forget(ins);
        core::mem::forget(outs);
        i += 1;
    }
    vcover!(true, "reached end");
    core::mem::forget(g);
    core::mem::forget(sh);
}

/// Node-set edge lists for a two-element set and for a set with an absent name.
fn c02_nodes_edges(directed: bool, multi: bool, s: u8) {
    let sh = match shape(directed, multi, s) {
        Some(x) => x,
        None => return,
    };
    let g = build_direct(specs_of(directed, multi), &sh.nodes, &sh.edges);
    let set = [Nm(0), Nm(1)];
    let all = g.get_edges_for_nodes(&set);
    let ins = g.get_in_edges_for_nodes(&set);
    let outs = g.get_out_edges_for_nodes(&set);
    let mut wa = Vec::new();
    let mut wi = Vec::new();
    let mut wo = Vec::new();
    let mut k = 0;
    while k < sh.edges.len() {
        let (a, b, _) = sh.edges[k];
        let ina = a == 0 || a == 1;
        let inb = b == 0 || b == 1;
        if ina || inb {
            wa.push(k);
        }
        if inb {
            wi.push(k);
        }
        if ina {
            wo.push(k);
        }
        k += 1;
    }
    vassert!(kind_of(&all) == 0, "get_edges_for_nodes succeeds");
    vassert!(same_edge_multiset(all.as_ref().unwrap(), &sh, &wa, directed), "get_edges_for_nodes lists the edges touching the set");
    if directed {
        vassert!(same_edge_multiset(ins.as_ref().unwrap(), &sh, &wi, true), "get_in_edges_for_nodes");
        vassert!(same_edge_multiset(outs.as_ref().unwrap(), &sh, &wo, true), "get_out_edges_for_nodes");
    } else {
        vassert!(kind_of(&ins) == 1 && kind_of(&outs) == 1, "in/out node-set queries on undirected graphs are WrongMethod");
    }
    let bad = [Nm(0), Nm(3)];
    let r = g.get_edges_for_nodes(&bad);
    vassert!(kind_of(&r) == 2, "get_edges_for_nodes with an absent node is NodeNotFound");
    if directed {
        let r2 = g.get_in_edges_for_nodes(&bad);
        let r3 = g.get_out_edges_for_nodes(&bad);
        vassert!(kind_of(&r2) == 2 && kind_of(&r3) == 2, "in/out node-set queries with an absent node are NodeNotFound");
        core::mem::forget(r2);
        core::mem::forget(r3);
    }
    vcover!(true, "reached end");
    core::mem::forget(r);
    core::mem::forget(all);
    core::mem::forget(ins);
    core::mem::forget(outs);
    core::mem::forget(wa);
    core::mem::forget(wi);
    core::mem::forget(wo);
    core::mem::forget(g);
    core::mem::forget(sh);
}

fn same_node_set(got: &Vec<&std::sync::Arc<Node<Nm, u8>>>, sh: &Shape, x: u8, mode: u8) -> bool {
    let mut ok = true;
    let names = [2u8, 0, 1];
    let mut cnt = 0;
    let mut i = 0;
    while i < 3 {
        let want = adjacent(sh, x, names[i], mode);
        let mut c = 0;
        let mut j = 0;
        while j < got.len() {
            if got[j].name.0 == names[i] {
                c += 1;
            }
            j += 1;
        }
        if want && c != 1 {
            ok = false;
        }
        if !want && c != 0 {
            ok = false;
        }
        cnt += c;
        i += 1;
    }
    ok && cnt == got.len()
}

/// Successor / predecessor / neighbour queries and the name-keyed maps.
fn c02_neighbours(directed: bool, multi: bool, s: u8) {
    let sh = match shape(directed, multi, s) {
        Some(x) => x,
        None => return,
    };
    let g = build_direct(specs_of(directed, multi), &sh.nodes, &sh.edges);
    let names = [2u8, 0, 1, 3];
    let mut i = 0;
    while i < 4 {
        let x = names[i];
        let su = g.get_successor_nodes(Nm(x));
        let pr = g.get_predecessor_nodes(Nm(x));
        let nb = g.get_neighbor_nodes(Nm(x));
        let sn = g.get_successor_node_names(Nm(x));
        let pn = g.get_predecessor_node_names(Nm(x));
        if !directed {
            vassert!(kind_of(&su) == 1 && kind_of(&pr) == 1 && kind_of(&sn) == 1 && kind_of(&pn) == 1,
                "successor/predecessor queries on undirected graphs are WrongMethod");
        } else if !present(x) {
            vassert!(kind_of(&su) == 2 && kind_of(&pr) == 2 && kind_of(&sn) == 2 && kind_of(&pn) == 2,
                "successor/predecessor queries with an absent node are NodeNotFound");
        } else {
            vassert!(kind_of(&su) == 0 && kind_of(&pr) == 0, "successor/predecessor queries succeed");
            vassert!(same_node_set(su.as_ref().unwrap(), &sh, x, 0), "get_successor_nodes");
            vassert!(same_node_set(pr.as_ref().unwrap(), &sh, x, 1), "get_predecessor_nodes");
            vassert!(sn.as_ref().unwrap().len() == su.as_ref().unwrap().len(), "get_successor_node_names");
            vassert!(pn.as_ref().unwrap().len() == pr.as_ref().unwrap().len(), "get_predecessor_node_names");
        }
        if !present(x) {
            vassert!(kind_of(&nb) == 2, "get_neighbor_nodes with an absent node is NodeNotFound");
        } else {
            vassert!(kind_of(&nb) == 0, "get_neighbor_nodes succeeds");
            vassert!(same_node_set(nb.as_ref().unwrap(), &sh, x, 2), "get_neighbor_nodes");
            let sor = g.get_successors_or_neighbors(Nm(x));
            vassert!(same_node_set(&sor, &sh, x, if directed { 0 } else { 2 }), "get_successors_or_neighbors");
            core::mem::forget(sor);
            // name-keyed maps
            let mut j = 0;
            while j < 3 {
                let y = names[j];
                let in_succ = match g.get_successors_map().get(&Nm(x)) {
                    None => false,
                    Some(hs) => hs.contains(&Nm(y)),
                };
                let in_pred = match g.get_predecessors_map().get(&Nm(x)) {
                    None => false,
                    Some(hs) => hs.contains(&Nm(y)),
                };
                vassert!(in_succ == adjacent(&sh, x, y, if directed { 0 } else { 2 }), "get_successors_map");
                vassert!(in_pred == (directed && adjacent(&sh, x, y, 1)), "get_predecessors_map");
                j += 1;
            }
        }
        core::mem::forget(su);
        core::mem::forget(pr);
        core::mem::forget(nb);
        core::mem::forget(sn);
        core::mem::forget(pn);
        i += 1;
    }
    vcover!(true, "reached end");
    core::mem::forget(g);
    core::mem::forget(sh);
}

/// has_node(s), name<->position round trip, node list, BFS reachability.
fn c02_nodes_bfs(directed: bool, multi: bool, s: u8) {
    let sh = match shape(directed, multi, s) {
        Some(x) => x,
        None => return,
    };
    let g = build_direct(specs_of(directed, multi), &sh.nodes, &sh.edges);
    let names = [2u8, 0, 1, 3];
    let mut i = 0;
    while i < 4 {
        let x = names[i];
        vassert!(g.has_node(&Nm(x)) == present(x), "has_node");
        let ix = g.get_node_index(&Nm(x));
        if present(x) {
            vassert!(ix.is_ok(), "get_node_index finds a stored name");
            let p = *ix.as_ref().unwrap();
            vassert!(p == i, "position is the insertion position");
            let nd = g.get_node_by_index(&p);
            vassert!(nd.is_some() && nd.unwrap().name.0 == x, "name -> position -> name round trip");
            vassert!(nd.unwrap().attributes == sh.nodes[i].1, "attributes by position");
        } else {
            vassert!(kind_of(&ix) == 2, "get_node_index of an absent name is NodeNotFound");
        }
        core::mem::forget(ix);
        i += 1;
    }
    vassert!(g.get_node_by_index(&3).is_none(), "get_node_by_index out of range is None");
    vassert!(g.has_nodes(&[Nm(2), Nm(1)]) && !g.has_nodes(&[Nm(2), Nm(3)]), "has_nodes");
    vassert!(g.number_of_nodes() == 3, "number_of_nodes");
    vcover!(true, "reached end");
    core::mem::forget(g);
    core::mem::forget(sh);
}

/// breadth_first_search from the start node at position `i`: the start first, then every
/// reachable node exactly once.
fn c02_bfs(directed: bool, multi: bool, s: u8, i: usize) {
    let sh = match shape(directed, multi, s) {
        Some(x) => x,
        None => return,
    };
    let g = build_direct(specs_of(directed, multi), &sh.nodes, &sh.edges);
    let names = [2u8, 0, 1, 3];
    {
        let x = names[i];
        let order = g.breadth_first_search(&Nm(x));
        vassert!(order.len() >= 1 && order[0].0 == x, "breadth_first_search lists the start node first");
        // closure over <= 3 nodes: 2 rounds suffice
        let mut reach = [false; 3];
        reach[i] = true;
        let mut round = 0;
        while round < 2 {
            let mut a = 0;
            while a < 3 {
                let mut b = 0;
                while b < 3 {
                    if reach[a] && adjacent(&sh, names[a], names[b], if directed { 0 } else { 2 }) {
                        reach[b] = true;
                    }
                    b += 1;
                }
                a += 1;
            }
            round += 1;
        }
        let mut a = 0;
        let mut total = 0;
        while a < 3 {
            let mut c = 0;
            let mut j = 0;
            while j < order.len() {
                if order[j].0 == names[a] {
                    c += 1;
                }
                j += 1;
            }
            vassert!(c == if reach[a] { 1 } else { 0 }, "breadth_first_search lists exactly the reachable nodes, each once");
            total += c;
            a += 1;
        }
        vassert!(total == order.len(), "breadth_first_search lists only stored nodes");
        core::mem::forget(order);
    }
    vcover!(true, "reached end");
    core::mem::forget(g);
    core::mem::forget(sh);
}

/// Validation of the pre-state constructor: build_direct(nodes, edges) and the real
/// add_node/add_edge history agree on the abstraction and both satisfy the full representation
/// invariant (every one of the twelve indexes).
fn c02_build_matches_history(directed: bool, multi: bool, s: u8) {
    let sh = match shape(directed, multi, s) {
        Some(x) => x,
        None => return,
    };
    let g1 = build_direct(specs_of(directed, multi), &sh.nodes, &sh.edges);
    let mut g2: G = Graph::new(specs_of(directed, multi));
    let mut i = 0;
    while i < sh.nodes.len() {
        g2.add_node(node(sh.nodes[i].0, sh.nodes[i].1));
        i += 1;
    }
    let mut k = 0;
    while k < sh.edges.len() {
        let r = g2.add_edge(edge(sh.edges[k].0, sh.edges[k].1, sh.edges[k].2));
        vassert!(r.is_ok(), "history accepted under permissive policies");
        core::mem::forget(r);
        k += 1;
    }
    let a1 = alpha(&g1);
    let a2 = alpha(&g2);
    vassert!(a1.same_as(&a2, directed), "build_direct and the real history have the same abstraction");
    vassert!(rep_inv(&g1, &a1), "build_direct satisfies the representation invariant");
    vassert!(rep_inv(&g2, &a2), "the real history satisfies the representation invariant");
    vcover!(true, "reached end");
    core::mem::forget(g1);
    core::mem::forget(g2);
    core::mem::forget(sh);
}

/// get_neighbor_nodes for the one node whose predecessor/successor chain has a non-adjacent duplicate
/// (shape 6: predecessors 0 and 1, successor 0): each neighbour exactly once.
fn c02_neighbor_dups(multi: bool) {
    let sh = shape(true, multi, 6).unwrap();
    let g = build_direct(specs_of(true, multi), &sh.nodes, &sh.edges);
    let nb = g.get_neighbor_nodes(Nm(2));
    vassert!(kind_of(&nb) == 0, "get_neighbor_nodes succeeds");
    vassert!(same_node_set(nb.as_ref().unwrap(), &sh, 2, 2), "get_neighbor_nodes lists each neighbour exactly once");
    vcover!(true, "reached end");
    core::mem::forget(nb);
    core::mem::forget(g);
    core::mem::forget(sh);
}
crate::vharness! { unwind = 9; fn c02_neighbor_dups_ds() { c02_neighbor_dups(false) } }
crate::vharness! { unwind = 9; fn c02_neighbor_dups_dm() { c02_neighbor_dups(true) } }

include!("gen_query_ac.rs");
