//! K-ac harness for C17 (kernel level), child module of graphrs::algorithms::community::louvain.
//!
//! C17 quantifies over hash-iteration orders ("each call sees freshly keyed hash tables"). The shim
//! iterates a map in insertion order, so *the iteration order becomes a harness variable*: the same
//! neighbour-community map is presented to `update_best_com` in both insertion orders and the chosen
//! community must not depend on it. Weights, degrees, totals, m and the resolution are symbolic.
use super::*;
use crate::graph::verif_model::HashMapT;
use crate::vk::*;
use crate::{vassert, vcover};

fn deg_info(directed: bool, vals: &[f64; 9]) -> DegreeInfo {
    DegreeInfo {
        in_degrees: HashMapT::new(),
        out_degrees: HashMapT::new(),
        stot_in: vec![vals[0], vals[1], vals[2]],
        stot_out: vec![vals[3], vals[4], vals[5]],
        degrees: HashMapT::new(),
        stot: vec![vals[0], vals[1], vals[2]],
        degree: vals[6],
        in_degree: if directed { vals[7] } else { 0.0 },
        out_degree: if directed { vals[8] } else { 0.0 },
    }
}

fn c17_update_best_com_order(directed: bool) {
    let mut vals = [0.0f64; 9];
    let mut i = 0;
    while i < 9 {
        vals[i] = any_small_weight();
        i += 1;
    }
    let (w1, w2) = (any_small_weight(), any_small_weight());
    let m = any_small_weight();
    let resolution = 1.0;
    let di = deg_info(directed, &vals);
    // the node currently sits in community 0 with gain 0; its neighbours are in communities 1 and 2
    let mut a: HashMapT<usize, f64> = HashMapT::new();
    a.insert(1, w1);
    a.insert(2, w2);
    let mut b: HashMapT<usize, f64> = HashMapT::new();
    b.insert(2, w2);
    b.insert(1, w1);
    let (mut com_a, mut mod_a) = (0usize, 0.0f64);
    let (mut com_b, mut mod_b) = (0usize, 0.0f64);
    update_best_com(&mut com_a, &mut mod_a, a, &di, m, resolution, directed);
    update_best_com(&mut com_b, &mut mod_b, b, &di, m, resolution, directed);
    vcover!(com_a != 0, "the node moves");
    vcover!(com_a == 0, "the node stays");
    vassert!(mod_a == mod_b, "the best gain does not depend on the iteration order of the neighbour-community map");
    vassert!(com_a == com_b, "the chosen community does not depend on the iteration order of the neighbour-community map");
    core::mem::forget(di);
}

crate::vharness! { unwind = 10; fn c17_update_best_com_order_u() { c17_update_best_com_order(false) } }
crate::vharness! { unwind = 10; fn c17_update_best_com_order_d() { c17_update_best_com_order(true) } }
