#!/bin/bash
# Offline setup: pre-build the Kani dependency cache (rand, rayon, quick-xml, statrs, ... compiled
# by kani-compiler) for the two builds, so that each check only recompiles graphrs itself from
# /repo's current working tree. Checks work without this cache too (they then build it lazily).
set -e
cd /verif
export CARGO_NET_OFFLINE=true
python3 - <<'PY'
import os, sys, shutil, subprocess
sys.path.insert(0, "/verif/vlib")
import stage as stg, kani as kn
SCR = os.environ.get("VERIF_SCRATCH", "/var/tmp/gverif")
for build in ("real", "ac"):
    base = os.path.join(SCR, "cache")
    os.makedirs(base, exist_ok=True)
    sdir = os.path.join(base, "stage_" + build)
    tdir = os.path.join(base, "target_" + build)
    stg.stage(sdir, build, [])
    rc, to, wall = kn.codegen(sdir, tdir, os.path.join(base, "codegen_%s.log" % build))
    print("setup: kani dependency cache for build '%s': rc=%s in %.0fs" % (build, rc, wall))
    if rc != 0:
        print(open(os.path.join(base, "codegen_%s.log" % build), errors="replace").read()[-3000:])
        sys.exit(1)
# native replay build cache (real crate, test profile)
PY
echo "setup ok"
