"""Per-property check driver: stage -> Kani -> classify -> replay -> evidence."""
import os, sys, json, time, shutil, re, subprocess, hashlib, fcntl
from concurrent.futures import ThreadPoolExecutor

HERE = os.path.dirname(os.path.abspath(__file__))
VERIF = os.path.dirname(HERE)
sys.path.insert(0, HERE)
import stage as stg
import kani as kn
import registry

SCRATCH = os.environ.get("VERIF_SCRATCH", "/var/tmp/gverif")
REPO = stg.REPO

def log(*a):
    print(*a, flush=True)

def load_costs():
    try:
        return json.load(open(os.path.join(VERIF, "costs.json")))
    except Exception:
        return {}

def save_costs(results):
    c = load_costs()
    for r in results:
        if r.get("wall_s"):
            c[r["harness"]["name"]] = round(r["wall_s"], 1)
    try:
        json.dump(c, open(os.path.join(VERIF, "costs.json"), "w"), indent=0, sort_keys=True)
    except Exception:
        pass

def load_known():
    path = os.path.join(VERIF, "known_findings.txt")
    out = []
    if not os.path.exists(path):
        return out
    for line in open(path):
        line = line.strip()
        if not line or line.startswith("#") or line.startswith("fixed:"):
            continue
        d = {}
        head, _, text = line.partition(" :: ")
        for tok in head.split():
            if "=" in tok:
                k, v = tok.split("=", 1)
                d[k] = v
        d["text"] = text
        out.append(d)
    return out

def known_match(known, pid, harness, failure):
    """A known finding matches on property + harness + (substring of failing check description/function)."""
    for k in known:
        if k.get("property") != pid or k.get("harness") != harness:
            continue
        want = k.get("check", "").replace("_", " ")
        blob = (failure["desc"] + " @ " + failure["loc"]).replace("_", " ")
        if want in blob:
            return k
    return None

def ensure_target(target, build):
    """Seed a fresh target dir from the dependency cache when available (deps only; graphrs itself
    is always recompiled from the staged copy of /repo's current working tree)."""
    if os.path.exists(target):
        return
    cache = os.path.join(SCRATCH, "cache", "target_" + build)
    if os.path.exists(cache):
        shutil.copytree(cache, target, symlinks=True)

def do_stage(pid, build, cap, tag=""):
    key = "%s_%s_cap%d%s" % (pid, build, cap, tag)
    base = os.path.join(SCRATCH, key)
    os.makedirs(base, exist_ok=True)
    sdir = os.path.join(base, "stage")
    tdir = os.path.join(base, "target")
    attach = []
    for rel, hfile in registry.attachments(pid, build):
        modname = "verif_" + os.path.splitext(os.path.basename(hfile))[0]
        attach.append((rel, os.path.join(VERIF, "harness", hfile), modname))
    n = stg.stage(sdir, build, attach, cap=cap)
    ensure_target(tdir, build)
    return base, sdir, tdir, n

def run_property(pid, tier, seed):
    t0 = time.time()
    prop = registry.PROPS[pid]
    want = {"quick": ("quick",), "thorough": ("quick", "thorough"), "full": ("quick", "thorough", "full")}[tier]
    harnesses = [h for h in prop["harnesses"] if h.get("tier", "quick") in want]
    only = os.environ.get("VERIF_ONLY")  # probing aid: regex over harness names (never used by MANIFEST commands)
    if only:
        import re as _re
        harnesses = [h for h in prop["harnesses"] if _re.search(only, h["name"])]
    known = load_known()
    groups = {}
    for h in harnesses:
        groups.setdefault((h["build"], h.get("cap", 4)), []).append(h)
    results = []
    inconclusive = []
    stage_info = {}
    for (build, cap), hs in groups.items():
        try:
            base, sdir, tdir, nrew = do_stage(pid, build, cap)
        except stg.StageError as e:
            inconclusive.append("staging failed: %s" % e)
            continue
        stage_info[(build, cap)] = (base, sdir, tdir)
        logdir = os.path.join(base, "logs")
        os.makedirs(logdir, exist_ok=True)
        log("[%s] build=%s cap=%d: codegen (%d harnesses)" % (pid, build, cap, len(hs)))
        rc, to, wall = kn.codegen(sdir, tdir, os.path.join(logdir, "codegen.log"), harnesses=[h["name"] for h in hs])
        if rc != 0:
            tail = open(os.path.join(logdir, "codegen.log"), errors="replace").read()[-2500:]
            inconclusive.append("kani codegen failed for build %s (the staged source no longer matches the harnesses?)\n%s" % (build, tail))
            continue
        log("[%s] codegen ok in %.0fs" % (pid, wall))
        par = min(int(os.environ.get("VERIF_JOBS", prop.get("jobs", 8))), len(hs))
        # one private target dir per worker (cargo serialises on the target-dir lock otherwise)
        import queue
        wq = queue.Queue()
        for w in range(par):
            wt = os.path.join(base, "target_w%d" % w)
            if os.path.exists(wt):
                shutil.rmtree(wt)
            shutil.copytree(tdir, wt, symlinks=True)
            wq.put(wt)
        # deterministic but seed-dependent order, dealt round-robin into one batch per worker
        order = sorted(hs, key=lambda h: hashlib.sha1((str(seed) + h["name"]).encode()).hexdigest())
        # longest-processing-time-first packing using the costs measured by earlier runs
        costs = load_costs()
        order.sort(key=lambda h: -costs.get(h["name"], 60.0))
        batches = [[] for _ in range(par)]
        loads = [0.0] * par
        for h in order:
            i = loads.index(min(loads))
            batches[i].append(h)
            loads[i] += costs.get(h["name"], 60.0) + 5.0
        batches = [b for b in batches if b]
        def work(batch):
            wt = wq.get()
            try:
                lp = os.path.join(logdir, "batch_" + batch[0]["name"] + ".log")
                tcap = int(os.environ.get("VERIF_HARNESS_TIMEOUT", "0")) or None
                res, wall = kn.run_batch(sdir, wt, [h["name"] for h in batch], lp,
                                         min(tcap, max(h.get("timeout", 900) for h in batch)) if tcap else max(h.get("timeout", 900) for h in batch),
                                         max(h.get("mem_kb", 24_000_000) for h in batch))
                out = []
                for h in batch:
                    r = res[h["name"]]
                    r["harness"] = h
                    r["stage"] = (build, cap)
                    out.append(r)
                return out
            finally:
                wq.put(wt)
        with ThreadPoolExecutor(max_workers=par) as ex:
            for rs in ex.map(work, batches):
              for r in rs:
                cl = kn.classify(r)
                r["class"] = cl
                st = r["stats"]
                log("[%s] %-40s %-10s symex=%.1fs solver=%.1fs steps=%s fail=%d bound=%d covers=%s t=%.0fs" % (
                    pid, r["harness"]["name"], r["verdict"], st.get("symex_s", -1), st.get("solver_s", -1),
                    st.get("program_steps"), len(cl["failures"]), len(cl["bound"]),
                    "/".join("%s" % (v or "?")[0] for v in cl["covers"].values()), r["wall_s"]))
                results.append(r)
        for w in range(par):
            shutil.rmtree(os.path.join(base, "target_w%d" % w), ignore_errors=True)
    # ---------------- decide
    violations, known_hits = [], []
    hang_violations = []
    n_queries = 0
    for r in results:
        h = r["harness"]; cl = r["class"]
        n_queries += len(r["checks"])
        if r["timeout"] or r["oom"] or r["verdict"] is None:
            inconclusive.append("%s: no verdict (timeout=%s oom=%s rc=%s)" % (h["name"], r["timeout"], r["oom"], r["rc"]))
            continue
        if cl["bound"]:
            # An unwinding assertion that fails inside graphrs code can mean a bound that is too small
            # or a loop that does not terminate. Decide natively: run the harness against the real crate
            # under a watchdog; a run that does not finish is a reproduced non-termination.
            unwind = [b for b in cl["bound"] if "unwinding assertion" in b["desc"] and "/verif/" not in b["loc"] and "verif_" not in b["loc"]]
            if unwind and h.get("hang_check", True) and not h.get("replay"):
                hung = native_hang_check(pid, h)
                if hung:
                    f = dict(unwind[0]); f["desc"] = "does not terminate (unwinding assertion failed and the native run exceeded the watchdog): " + f["desc"]
                    k = known_match(known, pid, h["name"], f)
                    if k:
                        known_hits.append((h["name"], f, k))
                    else:
                        outdir = os.path.join(os.environ.get("VERIF_REPLAY_DIR", os.path.join(VERIF, "replays")), pid)
                        os.makedirs(outdir, exist_ok=True)
                        jpath = os.path.join(outdir, h["name"] + ".json")
                        json.dump({"property": pid, "harness": h["name"], "failed_checks": [f], "native": "cargo test of the harness did not finish within the watchdog (dev profile, zero-filled symbolic values)"}, open(jpath, "w"), indent=1)
                        hang_violations.append((h["name"], [f], {"reproduced": True, "path": jpath}))
                    continue
            inconclusive.append("%s: bound too small: %s" % (h["name"], cl["bound"][0]["desc"]))
            continue
        if cl["undetermined"]:
            inconclusive.append("%s: undetermined checks: %s" % (h["name"], cl["undetermined"][0]["desc"]))
            continue
        # vacuity witnesses (not meaningful after a failed assertion: Kani cuts the path there)
        for label in ([] if (cl["failures"] and not h.get("cover_is_property")) else h.get("covers", [])):
            stt = cl["covers"].get(label)
            if stt != "SATISFIED":
                if h.get("cover_is_property"):
                    cl["failures"].append({"desc": "cover unreachable: " + label, "loc": "harness", "name": "cover", "status": stt})
                else:
                    inconclusive.append("%s: vacuity witness '%s' is %s" % (h["name"], label, stt))
        if h.get("expect_fail"):
            # twin harness: its final assert(false) must come back violated
            if not cl["failures"]:
                inconclusive.append("%s: reachability twin did not fail (harness vacuous)" % h["name"])
            continue
        if cl["failures"]:
            unknown = []
            for f in cl["failures"]:
                k = known_match(known, pid, h["name"], f)
                if k:
                    known_hits.append((h["name"], f, k))
                else:
                    unknown.append(f)
            if unknown:
                violations.append((r, unknown))
    exit_code = 0
    viol_out = list(hang_violations)
    max_replays = int(os.environ.get("VERIF_MAX_REPLAYS", "4"))
    for (r, fails) in violations:
        h = r["harness"]
        if len(viol_out) >= max_replays:
            log("note: %s also failed (%s); not replayed, %d violations already confirmed" % (h["name"], fails[0]["desc"], len(viol_out)))
            continue
        rep = replay(pid, r, fails)
        if rep["reproduced"]:
            viol_out.append((h["name"], fails, rep))
        else:
            inconclusive.append("%s: solver counterexample did not reproduce natively (%s) -- encoding disagreement" % (h["name"], rep.get("why")))
    seen = set()
    for (hn, f, k) in known_hits:
        key = (hn, k.get("check"))
        if key in seen:
            continue
        seen.add(key)
        log("KNOWN-FINDING: property=%s harness=%s %s" % (pid, hn, k["text"]))
    for (hn, fails, rep) in viol_out:
        log("VIOLATION property=%s replay=%s" % (pid, rep["path"]))
        log("  harness=%s failed=%s" % (hn, "; ".join("%s @ %s" % (f["desc"], f["loc"]) for f in fails[:3])))
        exit_code = 1
    if exit_code == 0 and inconclusive:
        exit_code = 2
    for m in inconclusive:
        log("INCONCLUSIVE: " + m)
    write_evidence(pid, tier, seed, results, viol_out, known_hits, inconclusive, time.time() - t0, n_queries)
    if os.environ.get("VERIF_SAVE_COSTS"):
        save_costs(results)
    return exit_code

# ------------------------------------------------------------------------------------------
def replay(pid, r, fails):
    """Re-run the failing harness with concrete playback, then execute it natively against the real
    crate (real std containers, no stubs) in dev and release profiles."""
    h = r["harness"]
    build, cap = r["stage"]
    base = os.path.join(SCRATCH, "%s_%s_cap%d" % (pid, build, cap))
    sdir, tdir = os.path.join(base, "stage"), os.path.join(base, "target")
    outdir = os.path.join(os.environ.get("VERIF_REPLAY_DIR", os.path.join(VERIF, "replays")), pid)
    os.makedirs(outdir, exist_ok=True)
    custom = h.get("replay")
    if custom:
        return custom(pid, h, r, fails, outdir)
    lp = os.path.join(base, "logs", h["name"] + ".playback.log")
    pr = kn.run_harness(sdir, tdir, h["name"], lp, h.get("timeout", 1500), h.get("mem_kb", 20_000_000),
                        extra=h.get("extra"), playback=True)
    blocks = kn.order_playback(pr.get("playback_vals") or [], fails)
    if not blocks:
        return {"reproduced": False, "why": "no concrete playback values produced"}
    vfile = os.path.join(outdir, h["name"] + ".vals")
    ok, detail = False, {}
    for blk in blocks[:6]:
        with open(vfile, "w") as fh:
            fh.write("# property %s harness %s -- Kani concrete playback values, one kani::any() per line\n" % (pid, h["name"]))
            fh.write("# from playback of: %s %s\n" % (blk["kind"], blk["desc"]))
            for f in fails[:5]:
                fh.write("# failed: %s @ %s\n" % (f["desc"], f["loc"]))
            for v in blk["vals"]:
                fh.write(" ".join(str(b) for b in v) + "\n")
        ok, detail = native_replay(pid, h, vfile)
        if ok:
            break
    meta = {"property": pid, "harness": h["name"], "values_file": vfile, "failed_checks": fails[:5],
            "native": detail,
            "how_to_replay": "python3 /verif/vlib/check.py --replay %s %s %s" % (pid, h["name"], vfile)}
    jpath = os.path.join(outdir, h["name"] + ".json")
    json.dump(meta, open(jpath, "w"), indent=1)
    return {"reproduced": ok, "path": jpath, "why": detail.get("why")}

def native_hang_check(pid, h, watchdog=40):
    """Run the harness natively (real crate) with zero-filled symbolic values under a watchdog.
    Returns True iff the run did not finish."""
    base = os.path.join(SCRATCH, "%s_replay" % pid)
    os.makedirs(base, exist_ok=True)
    sdir = os.path.join(base, "stage")
    tdir = os.path.join(base, "target")
    attach = []
    for rel, hfile in registry.attachments(pid, h["build"]):
        modname = "verif_" + os.path.splitext(os.path.basename(hfile))[0]
        attach.append((rel, os.path.join(VERIF, "harness", hfile), modname))
    stg.stage(sdir, "real", attach, cap=h.get("cap", 4), replay=True)
    vfile = os.path.join(base, "zeros.vals")
    open(vfile, "w").write("# zero-filled\n")
    env = dict(os.environ)
    env.update({"CARGO_NET_OFFLINE": "true", "VERIF_REPLAY_FILE": vfile, "CARGO_TARGET_DIR": tdir, "VERIF_SHIM_CFG_DIR": sdir, "VERIF_REPLAY_FILL": "1"})
    # build first (not under the watchdog)
    subprocess.run(["cargo", "test", "--offline", "--lib", "--features", "verif_replay", "--no-run"], cwd=sdir, env=env,
                   stdout=subprocess.PIPE, stderr=subprocess.STDOUT, timeout=1200)
    try:
        subprocess.run(["cargo", "test", "--offline", "--lib", "--features", "verif_replay", "--", h["name"], "--nocapture", "--test-threads", "1"],
                       cwd=sdir, env=env, stdout=subprocess.PIPE, stderr=subprocess.STDOUT, timeout=watchdog)
        return False
    except subprocess.TimeoutExpired:
        subprocess.run(["pkill", "-f", os.path.join(tdir, "debug", "deps", "graphrs-")], stdout=subprocess.PIPE, stderr=subprocess.STDOUT)
        return True

def native_replay(pid, h, vfile):
    """Stage the *real* build with the harness file attached under feature verif_replay and run the
    harness as a #[test]."""
    base = os.path.join(SCRATCH, "%s_replay" % pid)
    os.makedirs(base, exist_ok=True)
    sdir = os.path.join(base, "stage")
    tdir = os.path.join(base, "target")
    attach = []
    for rel, hfile in registry.attachments(pid, h["build"]):
        modname = "verif_" + os.path.splitext(os.path.basename(hfile))[0]
        attach.append((rel, os.path.join(VERIF, "harness", hfile), modname))
    stg.stage(sdir, "real", attach, cap=h.get("cap", 4), replay=True)
    env = dict(os.environ)
    env["CARGO_NET_OFFLINE"] = "true"
    env["VERIF_REPLAY_FILE"] = vfile
    env["CARGO_TARGET_DIR"] = tdir
    env["VERIF_SHIM_CFG_DIR"] = sdir
    detail = {}
    reproduced = False
    for prof in ("dev", "release"):
        cmd = ["cargo", "test", "--offline", "--lib", "--features", "verif_replay"]
        if prof == "release":
            cmd.append("--release")
        cmd += ["--", h["name"], "--exact-not", "--nocapture", "--test-threads", "1"]
        cmd = [c for c in cmd if c != "--exact-not"]
        p = subprocess.run(cmd, cwd=sdir, env=env, stdout=subprocess.PIPE, stderr=subprocess.STDOUT, timeout=1200)
        out = p.stdout.decode(errors="replace")
        began = "VERIF_REPLAY_BEGIN" in out
        ended = "VERIF_REPLAY_END" in out
        failed = began and (not ended) and ("panicked at" in out or "test result: FAILED" in out)
        if "VERIF_REPLAY_ASSUME_FAILED" in out or "VERIF_REPLAY_DESYNC" in out:
            failed = False
            detail["why"] = "replay desynchronised (assume failed)"
        detail[prof] = {"failed_natively": failed, "tail": out[-1500:]}
        reproduced = reproduced or failed
    if not reproduced and "why" not in detail:
        detail["why"] = "harness passed natively with the solver's values"
    return reproduced, detail

# ------------------------------------------------------------------------------------------
def write_evidence(pid, tier, seed, results, viol_out, known_hits, inconclusive, wall, n_queries):
    prop = registry.PROPS[pid]
    samples, encoded = [], set()
    n_nontrivial = 0
    tot_symex = tot_solver = 0.0
    states = transitions = 0
    for r in results:
        h = r["harness"]; cl = r["class"]; st = r["stats"]
        covers_ok = all(cl["covers"].get(c) == "SATISFIED" for c in h.get("covers", []))
        decided = (r["verdict"] is not None) and not r["timeout"] and not cl["bound"]
        if decided and covers_ok:
            n_nontrivial += 1
        tot_symex += st.get("symex_s", 0.0)
        tot_solver += st.get("solver_s", 0.0)
        states += st.get("sat_variables", 0)
        transitions += st.get("program_steps", 0)
        for c in r["checks"]:
            m = re.search(r' in function (.*)$', c["loc"])
            if m and ("graph" in m.group(1) or "algorithms" in m.group(1) or "generators" in m.group(1) or "readwrite" in m.group(1)) and "verif_" not in m.group(1):
                encoded.add(re.sub(r'<impl [^>]*>', '<impl>', m.group(1))[:120])
        samples.append({
            "harness": h["name"], "build": h["build"], "what": h.get("what", ""),
            "bounds": h.get("bounds", ""), "verdict": r["verdict"],
            "checks_total": len(r["checks"]), "checks_failed_property": len(cl["failures"]),
            "checks_failed_ignored_classes": len(cl["ignored"]),
            "covers": cl["covers"], "stats": st, "wall_s": round(r["wall_s"], 1),
        })
    ev = {
        "property_id": pid, "tier": tier, "seed": seed, "level": "model_checking",
        "coverage": {
            "evaluations": n_queries,
            "distinct_nontrivial": n_nontrivial,
            "rule": "evaluations = solver-discharged checks (assertions, panics, overflow, bounds, unwinding assertions, cover witnesses) summed over harnesses; "
                    "a harness is one bounded-model-checking query family over the symbolic inputs listed in its 'what'; it counts as distinct and non-trivial when it "
                    "reached a verdict, its unwinding assertions held and all of its registered vacuity witnesses (kani::cover) were SATISFIED.",
            "samples": samples,
            "states": max(states, 1), "transitions": max(transitions, 1),
            "traces_validated_against_impl": len(viol_out),
            "functions_encoded": sorted(encoded)[:200],
            "solver": "CBMC 6.11 (CaDiCaL) via Kani 0.68; bounded: per-harness unwind bounds with unwinding assertions on",
            "symex_seconds": round(tot_symex, 1), "solver_seconds": round(tot_solver, 1),
            "known_findings_hit": [{"harness": hn, "check": f["desc"], "loc": f["loc"]} for (hn, f, k) in known_hits][:50],
            "inconclusive": inconclusive,
            "outside_claim": prop.get("outside", ""),
            "exhaustive": False,
        },
        "assumptions": prop.get("assumptions", []) + registry.COMMON_ASSUMPTIONS,
        "wall_s": round(wall, 1),
        "violations": len(viol_out),
    }
    evdir = os.environ.get("VERIF_EVIDENCE_DIR", os.path.join(VERIF, "evidence"))
    os.makedirs(evdir, exist_ok=True)
    json.dump(ev, open(os.path.join(evdir, pid + ".json"), "w"), indent=1)

def main():
    args = sys.argv[1:]
    if args and args[0] == "--replay":
        pid, hname, vfile = args[1], args[2], args[3]
        h = [x for x in registry.PROPS[pid]["harnesses"] if x["name"] == hname][0]
        ok, detail = native_replay(pid, h, vfile)
        print(json.dumps(detail, indent=1))
        print("REPRODUCED" if ok else "NOT REPRODUCED")
        sys.exit(1 if ok else 0)
    pid = args[0]
    tier = os.environ.get("VERIF_TIER", "quick")
    if "--tier" in args:
        tier = args[args.index("--tier") + 1]
    seed = int(os.environ.get("VERIF_SEED", "0"))
    os.makedirs(SCRATCH, exist_ok=True)
    lock = open(os.path.join(SCRATCH, "lock_" + pid), "w")
    fcntl.flock(lock, fcntl.LOCK_EX)
    rc = run_property(pid, tier, seed)
    log("[%s] tier=%s exit=%d" % (pid, tier, rc))
    sys.exit(rc)

if __name__ == "__main__":
    main()
