"""Generate /verif/MANIFEST.json from the registry."""
import json, os, sys
sys.path.insert(0, os.path.dirname(os.path.abspath(__file__)))
import registry

CLAIMED = registry.CLAIMED
NA = registry.NOT_APPLICABLE

LEVEL_TEXT = {
 "C01": "Bounded model checking of the real add_node / add_edge / add_edges / add_edge_tuples code (Kani/CBMC): for every pre-state shape of the catalogue and every operation of the catalogue, the solver proves for ALL remaining policy combinations, f64 weights (incl. NaN) and attributes that the outcome kind, node list, edge multiset and all redundant indexes are what a reference model written from the property text dictates. One inductive step per harness covers histories of any length inside the size bound.",
 "C02": "Bounded model checking of every read API of graph/query.rs on a catalogue of 3-node graph shapes (name order != insertion order, self-loop, parallel edges in both orientations, 3-cycle) with symbolic weights/attributes, against an oracle over the edge list; plus solver-checked agreement of the pre-state constructor with real add_node/add_edge histories and the full 12-index representation invariant.",
 "C03": "Bounded model checking: after one add_edge under symbolic policies on each pre-state shape, the traversal lists (successors_vec / predecessors_vec) list exactly the stored pairs with the minimum stored weight, for all f64 weights; plus the add_to_adjacency_vec kernel on arbitrary lists.",
 "C09": "Bounded model checking of counts, degrees (plain / in / out / weighted), handshake identities, density and degree centrality on the shape catalogue with symbolic integer weights, against oracles computed from the edge list.",
 "C10": "Bounded model checking with the graph TOPOLOGY symbolic: all 16 undirected and all 128 directed graphs on 3 nodes (incl. a self-loop) in one query each; component functions vs a Floyd-Warshall closure oracle; partition / WrongMethod clauses.",
 "C12": "Bounded model checking: is_partition against the set-theoretic definition for all 2^8 / 2^12 families of sets over the node names plus a foreign name; modularity's NotAPartition guard; modularity value vs Newman's formula on concrete partitions with symbolic integer weights and resolution.",
 "C05": "Bounded model checking of the Brandes accumulation stage (every shortest-path DAG over 3 nodes, arbitrary previous vector), of the rescaling rules (every n, both flags) and of the hop-count single-source stage + the sequential composition bfs -> accumulate -> rescale on enumerated topologies against the definition; the weighted (BinaryHeap) stage is outside.",
 "C06": "Bounded model checking of the closeness formula (every r <= n <= 4, symbolic distances, WF flag) and of the hop-count BFS distances + the sequential composition reverse -> BFS -> formula on enumerated topologies (incoming distances on directed graphs); the weighted stage is outside.",
 "C11": "Bounded checking of triangles / clustering / generalized_degree / average_clustering / transitivity / square_clustering (undirected) and Fagiolo's coefficient (directed) on enumerated 3-node topologies and node subsets against brute-force oracles; WrongMethod guards; every Rust panic / overflow in the real code is an assertion.",
 "C17": "Kernel-level bounded model checking of the tie-breaking site named by the property: update_best_com is given the same neighbour-community map in both iteration orders (the shim iterates in insertion order, which turns the hash-iteration order into a harness input) with 12 symbolic weights/degrees: same community, same gain.",
 "C18": "Bounded model checking of eigenvector_centrality on two-node graphs (directed edge, reciprocal edges, undirected edge, isolated pair) with a symbolic integer weight, max_iter 1 or 2 and tolerance in {1e-6, 1e-2}: Ok results have one entry per node, non-negative entries and unit Euclidean norm; exhausting max_iter yields PowerIterationFailedConvergence. The approximate-fixed-point clause is outside.",
 "C20": "Assertion-free totality harnesses: public queries and algorithms on 7 degenerate shapes x 8 graph kinds run in Kani's debug model, where every unwrap / index / overflow panic of the real code is a checked assertion; absent names are passed to Result/Option-returning functions.",
 "C15": "Bounded model checking of get_subgraph / reverse / set_all_edge_weights / to_single_edges on the shape catalogue with symbolic weights: result abstraction vs reference transform, full representation invariant of the result, source unchanged, WrongMethod guards.",
 "C16": "Bounded model checking of the two G(n,p) skipping loops with every RNG output, every p in (0,1) and ln (by contract) symbolic: emitted pairs in range, no self-loop, strictly increasing, EVERY pair / empty / complete graph reachable (cover properties), no arithmetic overflow; the argument guard for every f64 p outside (0,1); complete_graph for n <= 1 with the flag symbolic and for n = 2 undirected (flag case-split; n = 2 directed and n = 3 in the full tier).",
}

def main():
    checks = []
    for pid in CLAIMED:
        prop = registry.PROPS[pid]
        checks.append({
            "property_id": pid,
            "quick_cmd": "./check %s" % pid,
            "thorough_cmd": "./check %s --tier thorough" % pid,
            "evidence_file": "/verif/evidence/%s.json" % pid,
            "replay_cmd_template": "python3 /verif/vlib/check.py --replay %s <harness> {path}" % pid,
            "engine": "kani-cbmc",
            "level_claimed": {"category": "model_checking", "text": LEVEL_TEXT.get(pid, registry.PROPS[pid].get("level_text", "bounded model checking of the real code")), "design_ref": "DESIGN.md section 4 (%s)" % pid},
            "level_note": "Bounded (sizes and unwind bounds per harness in the evidence file; unwinding assertions on). Trusted: rustc MIR, Kani 0.68, CBMC 6.11, CaDiCaL; " + "; ".join(prop.get("assumptions", []) + registry.COMMON_ASSUMPTIONS[2:6]) + ". Outside the claim: " + prop.get("outside", ""),
            "technique": "symbolic execution of the compiled Rust code (Kani -> CBMC) decided by SAT (CaDiCaL) over symbolic inputs; counterexamples replayed natively against the real crate",
        })
    man = {
        "version": 1,
        "setup_cmd": "./setup.sh",
        "hooks": {
            "guard": "kani (cfg set only by cargo-kani) / cargo feature verif_replay in the staged copy",
            "enable": "no hook is committed to /repo: every check copies /repo's working tree to a scratch directory and appends `#[cfg(any(kani, feature = \"verif_replay\"))] #[path = \"/verif/harness/<x>.rs\"] mod ...;` lines there (vlib/stage.py)",
            "baseline_off_cmd": "/verif/baseline.sh",
            "source_commits": [],
            "add_only": True,
        },
        "engines": [
            {"name": "kani-cbmc", "path": "/verif/vlib/check.py", "serves_properties": CLAIMED,
             "kind_free_text": "Kani 0.68 (CBMC 6.11, CaDiCaL) bounded model checker run on a staged copy of /repo; K-real build (crate as is) and K-ac build (hash containers redirected to /verif/shim/verif_shim.rs)"},
        ],
        "checks": checks,
        "not_applicable": [{"property_id": k, "reason": v} for k, v in NA.items() if k not in CLAIMED],
        "notes": "exit codes: 0 = held on everything explored (KNOWN-FINDING lines possible), 1 = VIOLATION (replayed natively), 2 = inconclusive (timeout / out of memory / bound too small / counterexample did not reproduce). Tiers: quick, thorough, and an unregistered 'full' tier (./check <id> --tier full) with the harnesses measured to need > 20 GB or > 15 min.",
    }
    json.dump(man, open(os.path.join(registry.VERIF, "MANIFEST.json"), "w"), indent=1)
    print("MANIFEST.json written: %d checks, %d not applicable" % (len(checks), len(man["not_applicable"])))

if __name__ == "__main__":
    main()
