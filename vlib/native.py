"""Native (real crate, real std containers) replay programs for counterexamples that cannot be
replayed value-by-value (environment stubs such as ln / the RNG consume solver values that the
real run derives from a seed)."""
import os, subprocess, json, shutil

SCRATCH = os.environ.get("VERIF_SCRATCH", "/var/tmp/gverif")
REPO = os.environ.get("VERIF_REPO", "/repo")

def run_program(tag, main_rs, profiles=("dev", "release"), timeout=1200, features=None):
    base = os.path.join(SCRATCH, "native_" + tag)
    os.makedirs(os.path.join(base, "src"), exist_ok=True)
    with open(os.path.join(base, "Cargo.toml"), "w") as fh:
        fh.write('[package]\nname = "native_%s"\nversion = "0.1.0"\nedition = "2021"\n[dependencies]\ngraphrs = { path = "%s"%s }\n[workspace]\n[profile.dev]\noverflow-checks = true\n' % (
            tag.lower(), REPO, (', features = %s' % json.dumps(features)) if features else ""))
    shutil.copy(os.path.join(REPO, "Cargo.lock"), os.path.join(base, "Cargo.lock"))
    with open(os.path.join(base, "src", "main.rs"), "w") as fh:
        fh.write(main_rs)
    env = dict(os.environ)
    env["CARGO_NET_OFFLINE"] = "true"
    env["CARGO_TARGET_DIR"] = os.path.join(base, "target")
    out = {}
    for prof in profiles:
        cmd = ["cargo", "run", "--offline", "-q"] + (["--release"] if prof == "release" else [])
        try:
            p = subprocess.run(cmd, cwd=base, env=env, stdout=subprocess.PIPE, stderr=subprocess.STDOUT, timeout=timeout)
            out[prof] = {"rc": p.returncode, "out": p.stdout.decode(errors="replace")[-4000:]}
        except subprocess.TimeoutExpired:
            out[prof] = {"rc": -9, "out": "timeout"}
    return out

GNP_MAIN = r'''
use graphrs::generators::random::fast_gnp_random_graph;
use std::collections::BTreeSet;
fn main() {
    // silence panic messages of the probes
    std::panic::set_hook(Box::new(|_| {}));
    let n: i32 = %(n)d;
    let directed: bool = %(directed)s;
    // (a) which pairs ever occur
    let mut seen: BTreeSet<(i32, i32)> = BTreeSet::new();
    let mut bad_pairs = 0usize;
    let mut panics = 0usize;
    let mut first_panic = String::new();
    for &p in &[0.5f64, 0.2, 0.9] {
        for seed in 0..1500u64 {
            match std::panic::catch_unwind(|| fast_gnp_random_graph(n, p, directed, Some(seed))) {
                Ok(Ok(g)) => {
                    let mut local = BTreeSet::new();
                    for e in g.get_all_edges() {
                        let pr = if directed { (e.u, e.v) } else { (e.u.max(e.v), e.u.min(e.v)) };
                        if e.u == e.v || e.u < 0 || e.v < 0 || e.u >= n || e.v >= n || !local.insert(pr) { bad_pairs += 1; }
                        seen.insert(pr);
                    }
                    if g.get_all_nodes().len() as i32 != n { bad_pairs += 1; }
                }
                Ok(Err(_)) => { bad_pairs += 1; }
                Err(_) => { panics += 1; if first_panic.is_empty() { first_panic = format!("n={} p={} directed={} seed={}", n, p, directed, seed); } }
            }
        }
    }
    // (b) tiny / extreme probabilities: panic or garbage?
    for &p in &[1e-12f64, 1e-9, 1e-7, 1e-5, 1e-3, 0.999999999, f64::MIN_POSITIVE] {
        for seed in 0..400u64 {
            for &nn in &[n, 5, 50] {
                match std::panic::catch_unwind(|| fast_gnp_random_graph(nn, p, directed, Some(seed))) {
                    Ok(Ok(g)) => {
                        for e in g.get_all_edges() {
                            if e.u == e.v || e.u < 0 || e.v < 0 || e.u >= nn || e.v >= nn { bad_pairs += 1; }
                        }
                        if g.get_all_nodes().len() as i32 != nn { bad_pairs += 1; }
                    }
                    Ok(Err(_)) => { bad_pairs += 1; }
                    Err(_) => { panics += 1; if first_panic.is_empty() { first_panic = format!("n={} p={:e} directed={} seed={}", nn, p, directed, seed); } }
                }
            }
        }
    }
    let total: usize = if directed { (n * (n - 1)) as usize } else { (n * (n - 1) / 2) as usize };
    println!("PAIRS_SEEN {} of {} : {:?}", seen.len(), total, seen);
    println!("BAD_PAIRS {}", bad_pairs);
    println!("PANICS {} first: {}", panics, first_panic);
}
'''

def replay_gnp(pid, h, r, fails, outdir):
    n = h["params"]["n"]; directed = h["params"]["directed"]
    main_rs = GNP_MAIN % {"n": n, "directed": "true" if directed else "false"}
    res = run_program("c16", main_rs)
    reproduced = False
    why = []
    for prof, o in res.items():
        txt = o["out"]
        import re
        m = re.search(r'PAIRS_SEEN (\d+) of (\d+)', txt)
        pm = re.search(r'PANICS (\d+)', txt)
        bm = re.search(r'BAD_PAIRS (\d+)', txt)
        for f in fails:
            d = f["desc"]
            if d.startswith("cover unreachable: pair") and m and int(m.group(1)) < int(m.group(2)):
                reproduced = True; why.append("%s: only %s of %s pairs ever occur over 4500 seeded runs" % (prof, m.group(1), m.group(2)))
            elif ("overflow" in d or "generator succeeds" in d) and pm and int(pm.group(1)) > 0:
                reproduced = True; why.append("%s: %s panicking calls (%s)" % (prof, pm.group(1), txt.split("first:")[-1].strip()[:80]))
            elif bm and int(bm.group(1)) > 0 and ("pair in range" in d or "self-loop" in d or "repeated" in d or "lower triangle" in d):
                reproduced = True; why.append("%s: %s malformed pairs/graphs" % (prof, bm.group(1)))
    path = os.path.join(outdir, h["name"] + ".json")
    json.dump({"property": pid, "harness": h["name"], "failed_checks": fails[:5], "native_program": "seeded sweep of fast_gnp_random_graph (see /verif/vlib/native.py GNP_MAIN)",
               "native": res, "reproduced": reproduced, "why": why}, open(path, "w"), indent=1)
    with open(os.path.join(outdir, h["name"] + ".rs"), "w") as fh:
        fh.write(main_rs)
    return {"reproduced": reproduced, "path": path, "why": "; ".join(why) or "native sweep found nothing"}
