"""Native (real crate, real std containers) replay programs for counterexamples that cannot be
replayed value-by-value (environment stubs such as ln / the RNG consume solver values that the
real run derives from a seed)."""
import os, subprocess, json, shutil

SCRATCH = os.environ.get("VERIF_SCRATCH", "/var/tmp/gverif")
REPO = os.environ.get("VERIF_REPO", "/repo")

def run_program(tag, main_rs, profiles=("dev", "release"), timeout=1200, features=None):
    base = os.path.join(SCRATCH, "native_" + tag)
    os.makedirs(os.path.join(base, "src"), exist_ok=True)
    with open(os.path.join(base, "Cargo.toml"), "w") as fh:
        fh.write('[package]\nname = "native_%s"\nversion = "0.1.0"\nedition = "2021"\n[dependencies]\ngraphrs = { path = "%s"%s }\n[workspace]\n[profile.dev]\noverflow-checks = true\n' % (
            tag.lower(), REPO, (', features = %s' % json.dumps(features)) if features else ""))
    shutil.copy(os.path.join(REPO, "Cargo.lock"), os.path.join(base, "Cargo.lock"))
    with open(os.path.join(base, "src", "main.rs"), "w") as fh:
        fh.write(main_rs)
    env = dict(os.environ)
    env["CARGO_NET_OFFLINE"] = "true"
    env["CARGO_TARGET_DIR"] = os.path.join(base, "target")
    out = {}
    for prof in profiles:
        cmd = ["cargo", "run", "--offline", "-q"] + (["--release"] if prof == "release" else [])
        try:
            p = subprocess.run(cmd, cwd=base, env=env, stdout=subprocess.PIPE, stderr=subprocess.STDOUT, timeout=timeout)
            out[prof] = {"rc": p.returncode, "out": p.stdout.decode(errors="replace")[-4000:]}
        except subprocess.TimeoutExpired:
            out[prof] = {"rc": -9, "out": "timeout"}
    return out

GNP_MAIN = r'''
use graphrs::generators::random::fast_gnp_random_graph;
use std::collections::BTreeSet;
fn main() {
    // silence panic messages of the probes
    std::panic::set_hook(Box::new(|_| {}));
    let n: i32 = %(n)d;
    let directed: bool = %(directed)s;
    // (a) which pairs ever occur
    let mut seen: BTreeSet<(i32, i32)> = BTreeSet::new();
    let mut bad_pairs = 0usize;
    let mut panics = 0usize;
    let mut first_panic = String::new();
    for &p in &[0.5f64, 0.2, 0.9] {
        for seed in 0..1500u64 {
            match std::panic::catch_unwind(|| fast_gnp_random_graph(n, p, directed, Some(seed))) {
                Ok(Ok(g)) => {
                    let mut local = BTreeSet::new();
                    for e in g.get_all_edges() {
                        let pr = if directed { (e.u, e.v) } else { (e.u.max(e.v), e.u.min(e.v)) };
                        if e.u == e.v || e.u < 0 || e.v < 0 || e.u >= n || e.v >= n || !local.insert(pr) { bad_pairs += 1; }
                        seen.insert(pr);
                    }
                    if g.get_all_nodes().len() as i32 != n { bad_pairs += 1; }
                }
                Ok(Err(_)) => { bad_pairs += 1; }
                Err(_) => { panics += 1; if first_panic.is_empty() { first_panic = format!("n={} p={} directed={} seed={}", n, p, directed, seed); } }
            }
        }
    }
    // (b) tiny / extreme probabilities: panic or garbage?
    for &p in &[1e-12f64, 1e-9, 1e-7, 1e-5, 1e-3, 0.999999999, f64::MIN_POSITIVE] {
        for seed in 0..400u64 {
            for &nn in &[n, 5, 50] {
                match std::panic::catch_unwind(|| fast_gnp_random_graph(nn, p, directed, Some(seed))) {
                    Ok(Ok(g)) => {
                        for e in g.get_all_edges() {
                            if e.u == e.v || e.u < 0 || e.v < 0 || e.u >= nn || e.v >= nn { bad_pairs += 1; }
                        }
                        if g.get_all_nodes().len() as i32 != nn { bad_pairs += 1; }
                    }
                    Ok(Err(_)) => { bad_pairs += 1; }
                    Err(_) => { panics += 1; if first_panic.is_empty() { first_panic = format!("n={} p={:e} directed={} seed={}", nn, p, directed, seed); } }
                }
            }
        }
    }
    // (c) mean edge count over seeds vs p x pairs (sparse graphs: a skip often crosses several rows)
    let mut worst_dev = 0.0f64;
    for &(nn, p) in &[(100i32, 0.005f64), (40, 0.02), (12, 0.3)] {
        let runs = 1500u64;
        let mut tot = 0usize;
        for seed in 0..runs {
            if let Ok(Ok(g)) = std::panic::catch_unwind(|| fast_gnp_random_graph(nn, p, directed, Some(seed))) { tot += g.get_all_edges().len(); }
        }
        let pairs = if directed { (nn * (nn - 1)) as f64 } else { (nn * (nn - 1)) as f64 / 2.0 };
        let mean = tot as f64 / runs as f64;
        let dev = ((mean - p * pairs) / (p * pairs)).abs() - 1.0 / (nn as f64 - 1.0);
        if dev > worst_dev { worst_dev = dev; }
        println!("MEAN n={} p={} directed={} mean={:.3} expected={:.3}", nn, p, directed, mean, p * pairs);
    }
    println!("MEAN_DEV {:.4}", worst_dev);
    let total: usize = if directed { (n * (n - 1)) as usize } else { (n * (n - 1) / 2) as usize };
    println!("PAIRS_SEEN {} of {} : {:?}", seen.len(), total, seen);
    println!("BAD_PAIRS {}", bad_pairs);
    println!("PANICS {} first: {}", panics, first_panic);
}
'''

def replay_gnp(pid, h, r, fails, outdir):
    n = h["params"]["n"]; directed = h["params"]["directed"]
    main_rs = GNP_MAIN % {"n": n, "directed": "true" if directed else "false"}
    res = run_program("c16", main_rs)
    reproduced = False
    why = []
    for prof, o in res.items():
        txt = o["out"]
        import re
        m = re.search(r'PAIRS_SEEN (\d+) of (\d+)', txt)
        pm = re.search(r'PANICS (\d+)', txt)
        bm = re.search(r'BAD_PAIRS (\d+)', txt)
        for f in fails:
            d = f["desc"]
            if d.startswith("cover unreachable: pair") and m and int(m.group(1)) < int(m.group(2)):
                reproduced = True; why.append("%s: only %s of %s pairs ever occur over 4500 seeded runs" % (prof, m.group(1), m.group(2)))
            elif ("overflow" in d or "generator succeeds" in d) and pm and int(pm.group(1)) > 0:
                reproduced = True; why.append("%s: %s panicking calls (%s)" % (prof, pm.group(1), txt.split("first:")[-1].strip()[:80]))
            elif "slot law" in d and re.search(r'MEAN_DEV ([0-9.]+)', txt) and float(re.search(r'MEAN_DEV ([0-9.]+)', txt).group(1)) > 0.10:
                reproduced = True; why.append("%s: mean edge count deviates from p x pairs by more than the allowance + 10%% (%s)" % (prof, re.search(r'MEAN_DEV ([0-9.]+)', txt).group(0)))
            elif bm and int(bm.group(1)) > 0 and ("pair in range" in d or "self-loop" in d or "repeated" in d or "lower triangle" in d):
                reproduced = True; why.append("%s: %s malformed pairs/graphs" % (prof, bm.group(1)))
    path = os.path.join(outdir, h["name"] + ".json")
    json.dump({"property": pid, "harness": h["name"], "failed_checks": fails[:5], "native_program": "seeded sweep of fast_gnp_random_graph (see /verif/vlib/native.py GNP_MAIN)",
               "native": res, "reproduced": reproduced, "why": why}, open(path, "w"), indent=1)
    with open(os.path.join(outdir, h["name"] + ".rs"), "w") as fh:
        fh.write(main_rs)
    return {"reproduced": reproduced, "path": path, "why": "; ".join(why) or "native sweep found nothing"}


LOUVAIN_MAIN = r'''
use graphrs::{algorithms::community::louvain, Edge, Graph, GraphSpecs};
use std::collections::BTreeSet;
fn canon(p: &Vec<Vec<std::collections::HashSet<i32>>>) -> Vec<BTreeSet<BTreeSet<i32>>> {
    p.iter().map(|lvl| lvl.iter().map(|c| c.iter().cloned().collect()).collect()).collect()
}
fn main() {
    let mut worst = 1usize;
    for (name, edges, directed) in [("cycle4", vec![(0,1),(1,2),(2,3),(3,0)], false), ("cycle6", vec![(0,1),(1,2),(2,3),(3,4),(4,5),(5,0)], false),
        ("k33", vec![(0,3),(0,4),(0,5),(1,3),(1,4),(1,5),(2,3),(2,4),(2,5)], false), ("dcycle4", vec![(0,1),(1,2),(2,3),(3,0),(1,0),(2,1),(3,2),(0,3)], true)] {
        let es: Vec<_> = edges.iter().map(|(a,b)| Edge::with_weight(*a, *b, 1.0)).collect();
        let specs = if directed { GraphSpecs::directed_create_missing() } else { GraphSpecs::undirected_create_missing() };
        let g: Graph<i32, ()> = Graph::new_from_nodes_and_edges(vec![], es, specs).unwrap();
        for seed in [1u64, 7, 42] {
            let mut seen = BTreeSet::new();
            for _ in 0..200 {
                let p = louvain::louvain_partitions(&g, false, None, None, Some(seed)).unwrap();
                seen.insert(canon(&p));
            }
            if seen.len() > worst { worst = seen.len(); println!("{} seed {}: {} distinct results over 200 calls", name, seed, seen.len()); }
        }
    }
    println!("MAX_DISTINCT {}", worst);
}
'''

def replay_louvain(pid, h, r, fails, outdir):
    res = run_program("c17", LOUVAIN_MAIN, profiles=("release",))
    import re
    m = re.search(r'MAX_DISTINCT (\d+)', res["release"]["out"])
    reproduced = bool(m and int(m.group(1)) > 1)
    path = os.path.join(outdir, h["name"] + ".json")
    json.dump({"property": pid, "harness": h["name"], "failed_checks": fails[:5], "native_program": "repeated seeded louvain_partitions calls on tie graphs in one process (vlib/native.py LOUVAIN_MAIN)",
               "native": res, "reproduced": reproduced}, open(path, "w"), indent=1)
    with open(os.path.join(outdir, h["name"] + ".rs"), "w") as fh:
        fh.write(LOUVAIN_MAIN)
    return {"reproduced": reproduced, "path": path, "why": "seeded louvain_partitions returned %s distinct results" % (m.group(1) if m else "?")}
