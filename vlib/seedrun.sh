#!/bin/bash
# usage: seedrun.sh <seed-id> [property]   e.g. seedrun.sh C01_1
# Applies a seeded change to a scratch worktree of /repo's HEAD, runs the property's quick check
# against it (VERIF_REPO points the staging at the worktree), records the outcome, removes the worktree.
ID=$1; P=${2:-${ID%%_*}}; TIER=${3:-quick}
WT=/tmp/seedrun/$ID
rm -rf $WT; git -C /repo worktree prune; git -C /repo worktree add -f $WT HEAD >/dev/null 2>&1 || exit 2
cp /repo/Cargo.lock $WT/ 2>/dev/null; git -C $WT apply /verif/seeded/$ID/patch.diff || { echo "$ID: patch does not apply"; exit 2; }
cd /verif
VERIF_REPO=$WT VERIF_SCRATCH=/var/tmp/gverif_seed_$ID VERIF_JOBS=${VERIF_JOBS:-8} VERIF_EVIDENCE_DIR=/var/tmp/gverif_seed_$ID/evidence VERIF_REPLAY_DIR=/var/tmp/gverif_seed_$ID/replays \
  python3 vlib/check.py $P --tier $TIER > /var/tmp/gv/seed_$ID.log 2>&1
rc=$?
v=$(grep -c "^VIOLATION" /var/tmp/gv/seed_$ID.log)
echo "$ID property=$P tier=$TIER exit=$rc violations=$v : $(grep -m2 'harness=' /var/tmp/gv/seed_$ID.log | tr '\n' ' ' | cut -c1-300)" | tee /verif/seeded/$ID/result_$P.txt
git -C /repo worktree remove --force $WT; rm -rf /var/tmp/gverif_seed_$ID
