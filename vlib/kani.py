"""Run Kani harnesses on a staged copy and parse per-check results."""
import os, re, subprocess, time, json, shutil, resource, signal

KANI_ENV = {
    "CARGO_NET_OFFLINE": "true",
}

IGNORED_DESC_PREFIXES = (
    "NaN on ",                       # CBMC --nan-check: graphrs legitimately produces NaN (unweighted == NaN)
    "arithmetic overflow on floating-point",  # IEEE inf is defined behaviour, not a panic
)

CHECK_RE = re.compile(r'^Check (\d+): (.*)$')

def parse_output(text):
    """Return dict with checks, stats, verdict."""
    checks = []
    cur = None
    for line in text.split("\n"):
        m = CHECK_RE.match(line)
        if m:
            cur = {"n": int(m.group(1)), "name": m.group(2).strip(), "status": None, "desc": "", "loc": ""}
            checks.append(cur)
            continue
        if cur is not None:
            s = line.strip()
            if s.startswith("- Status:"):
                cur["status"] = s.split(":", 1)[1].strip()
            elif s.startswith("- Description:"):
                cur["desc"] = s.split(":", 1)[1].strip().strip('"')
            elif s.startswith("- Location:"):
                cur["loc"] = s.split(":", 1)[1].strip()
            elif s == "":
                cur = None
    stats = {}
    def grab(pat, key, conv=float, last=True):
        ms = re.findall(pat, text)
        if ms:
            stats[key] = conv(ms[-1] if last else ms[0])
    grab(r'Runtime Symex: ([0-9.eE+-]+)s', "symex_s")
    grab(r'size of program expression: (\d+) steps', "program_steps", int)
    grab(r'Generated (\d+) VCC', "vccs", int)
    grab(r'(\d+) remaining after simplification', "vccs_remaining", int)
    grab(r'Runtime Solver: ([0-9.eE+-]+)s', "solver_s")
    grab(r'Runtime decision procedure: ([0-9.eE+-]+)s', "decision_s")
    grab(r'Verification Time: ([0-9.eE+-]+)s', "verification_s")
    m = re.findall(r'(\d+) variables, (\d+) clauses', text)
    if m:
        stats["sat_variables"], stats["sat_clauses"] = int(m[-1][0]), int(m[-1][1])
    verdict = None
    if "VERIFICATION:- SUCCESSFUL" in text:
        verdict = "SUCCESSFUL"
    elif "VERIFICATION:- FAILED" in text:
        verdict = "FAILED"
    stubs = re.findall(r'- Stub: (.*)', text)
    return {"checks": checks, "stats": stats, "verdict": verdict, "stubs": stubs}

def classify(parsed):
    """Split the checks into decided classes.
    Returns dict: failures (property-relevant), ignored_failures, bound_failures (unwind/capacity),
    covers {desc: status}, n_success, undetermined."""
    failures, ignored, bound, undet = [], [], [], []
    covers = {}
    n_ok = 0
    for c in parsed["checks"]:
        st = c["status"]
        name, desc = c["name"], c["desc"]
        if ".cover." in name or st in ("SATISFIED", "UNSATISFIABLE"):
            key = desc.replace("cover condition: ", "")
            # the same label may be used at several sites: SATISFIED anywhere wins
            if covers.get(key) != "SATISFIED":
                covers[key] = st
            continue
        if st == "SUCCESS" or st == "UNREACHABLE":
            n_ok += 1
            continue
        if st == "FAILURE":
            if desc.startswith(IGNORED_DESC_PREFIXES):
                ignored.append(c)
            elif "VERIF_SHIM_CAPACITY" in desc or "VERIF_BOUND" in desc or ".unwind." in name or "unwinding assertion" in desc or "recursion unwinding" in desc:
                bound.append(c)
            else:
                failures.append(c)
        else:
            undet.append(c)
    return {"failures": failures, "ignored": ignored, "bound": bound, "covers": covers,
            "n_success": n_ok, "undetermined": undet}

def _limits(mem_kb):
    def f():
        os.setsid()
        if mem_kb:
            resource.setrlimit(resource.RLIMIT_AS, (mem_kb * 1024, mem_kb * 1024))
    return f

def run_cmd(cmd, cwd, env, timeout, log_path, mem_kb=None):
    t0 = time.time()
    with open(log_path, "w") as lf:
        p = subprocess.Popen(cmd, cwd=cwd, env=env, stdout=lf, stderr=subprocess.STDOUT,
                             preexec_fn=_limits(mem_kb))
        try:
            rc = p.wait(timeout=timeout)
            to = False
        except subprocess.TimeoutExpired:
            try:
                os.killpg(p.pid, signal.SIGKILL)
            except Exception:
                pass
            p.wait()
            rc, to = -9, True
    return rc, to, time.time() - t0

def base_env(stage_dir):
    env = dict(os.environ)
    env.update(KANI_ENV)
    env["VERIF_SHIM_CFG_DIR"] = stage_dir
    env.pop("RUSTFLAGS", None)
    return env

def codegen(stage_dir, target_dir, log_path, timeout=1800, harnesses=None):
    cmd = ["cargo", "kani", "--target-dir", target_dir, "--only-codegen", "-Z", "stubbing"]
    for h in (harnesses or [])[:1]:
        # a harness filter keeps codegen proportional to what is run; one name suffices to
        # type-check the whole staged crate (every harness module is compiled by rustc anyway)
        cmd += ["--harness", h]
    return run_cmd(cmd, stage_dir, base_env(stage_dir), timeout, log_path)

def run_harness(stage_dir, target_dir, harness, log_path, timeout, mem_kb, extra=None, playback=False, fs_size=512):
    cmd = ["cargo", "kani", "--target-dir", target_dir, "--harness", harness, "-Z", "stubbing",
           "--no-memory-safety-checks", "--no-assertion-reach-checks"]
    if playback:
        cmd += ["-Z", "concrete-playback", "--concrete-playback", "print"]
    if extra:
        cmd += extra
    # must be last: pass-through to CBMC. Field-sensitive treatment of heap buffers up to fs_size
    # bytes lets symex constant-propagate Vec/Arc contents (measured: >440 s -> 11 s).
    cmd += ["-Z", "unstable-options", "--cbmc-args", "--max-field-sensitivity-array-size", str(fs_size)]
    rc, to, wall = run_cmd(cmd, stage_dir, base_env(stage_dir), timeout, log_path, mem_kb)
    text = open(log_path, errors="replace").read()
    parsed = parse_output(text)
    parsed["rc"], parsed["timeout"], parsed["wall_s"] = rc, to, wall
    parsed["oom"] = ("std::bad_alloc" in text) or ("Out of memory" in text) or ("ran out of memory" in text) or ("run out of memory" in text)
    if parsed["oom"]:
        parsed["verdict"] = None
    parsed["text_tail"] = text[-3000:]
    if playback:
        parsed["playback_vals"] = parse_playback(text)
    return parsed

def parse_playback(text):
    """Extract the concrete byte vectors from Kani's printed playback unit tests.
    Returns a list of {kind, desc, vals} (one per failed check / satisfied cover)."""
    out = []
    for blk in re.split(r'Concrete playback unit test for', text)[1:]:
        km = re.search(r'/// Check for `([^`]*)`: "(.*)"', blk)
        m = re.search(r'let concrete_vals: Vec<Vec<u8>> = vec!\[(.*?)\n\s*\];', blk, re.S)
        if not m:
            continue
        vals = []
        for vm in re.finditer(r'vec!\[([0-9,\s]*)\]', m.group(1)):
            s = vm.group(1).strip()
            vals.append([int(x) for x in s.replace("\n", " ").split(",") if x.strip()])
        out.append({"kind": km.group(1) if km else "", "desc": km.group(2) if km else "", "vals": vals})
    return out

def order_playback(blocks, fails):
    """Playback blocks ordered by relevance to the failing checks: the failed check itself, the
    twin cover of a failed vassert ("CEX <label>"), other non-cover blocks, then the rest."""
    def rank(b):
        for f in fails:
            if b["kind"] != "cover" and (b["desc"] == f["desc"] or b["desc"] in f["desc"] or f["desc"] in b["desc"]):
                return 0
        for f in fails:
            if b["kind"] == "cover" and b["desc"] and b["desc"] in f["desc"]:
                return 1
        if b["kind"] != "cover":
            return 2
        return 4
    return sorted(blocks, key=rank)


def run_batch(stage_dir, target_dir, harnesses, log_path, per_timeout, mem_kb, fs_size=512, playback=False):
    """One cargo-kani invocation (one compile) for several harnesses, verified sequentially.
    Returns {name: parsed}. Harnesses without a result block are reported with verdict None."""
    cmd = ["cargo", "kani", "--target-dir", target_dir, "-Z", "stubbing",
           "--no-memory-safety-checks", "--no-assertion-reach-checks", "-Z", "unstable-options",
           "--harness-timeout", "%ds" % per_timeout]
    for h in harnesses:
        cmd += ["--harness", h]
    if playback:
        cmd += ["-Z", "concrete-playback", "--concrete-playback", "print"]
    cmd += ["--cbmc-args", "--max-field-sensitivity-array-size", str(fs_size)]
    total_to = per_timeout * len(harnesses) + 600
    rc, to, wall = run_cmd(cmd, stage_dir, base_env(stage_dir), total_to, log_path, mem_kb)
    text = open(log_path, errors="replace").read()
    parts = re.split(r'^Checking harness (.*)\.\.\.$', text, flags=re.M)
    out = {}
    # parts = [prefix, name1, body1, name2, body2, ...]
    for i in range(1, len(parts) - 1, 2):
        full = parts[i].strip()
        body = parts[i + 1]
        short = full.split("::")[-1]
        parsed = parse_output(body)
        vt = parsed["stats"].get("verification_s")
        parsed["rc"] = rc
        parsed["timeout"] = ("timed out" in body) or (parsed["verdict"] is None and to)
        parsed["wall_s"] = vt if vt is not None else 0.0
        parsed["oom"] = ("std::bad_alloc" in body) or ("Out of memory" in body) or ("ran out of memory" in body) or ("run out of memory" in body)
        if parsed["oom"]:
            parsed["verdict"] = None
        parsed["text_tail"] = body[-2000:]
        if playback:
            parsed["playback_vals"] = parse_playback(body)
        out[short] = parsed
    for h in harnesses:
        if h not in out:
            out[h] = {"checks": [], "stats": {}, "verdict": None, "stubs": [], "rc": rc, "timeout": to,
                      "wall_s": 0.0, "oom": False, "text_tail": text[-2000:]}
    return out, wall
