#!/bin/bash
# usage: verify_seed_head.sh <seed-id> : confirms on /repo's current HEAD (scratch worktree) that demo.rs
# passes without the patch, fails with it, and that the 207 baseline tests still pass with it.
ID=$1; WT=/tmp/seedrun/v_$ID
rm -rf $WT; git -C /repo worktree prune; git -C /repo worktree add -f $WT HEAD >/dev/null 2>&1 || exit 2
cd $WT; cp /repo/Cargo.lock . 2>/dev/null
cp /verif/seeded/$ID/demo.rs tests/verif_demo.rs
export CARGO_NET_OFFLINE=true
clean=$(cargo test --offline --test verif_demo 2>&1 | grep -E "^test result" | head -1 | cut -c1-40)
if git apply /verif/seeded/$ID/patch.diff 2>/dev/null; then
  mut=$(cargo test --offline --test verif_demo 2>&1 | grep -E "^test result|error\[" | head -1 | cut -c1-44)
  rm -f tests/verif_demo.rs
  base=$(VERIF_BASELINE_REPO=$WT /verif/baseline.sh | head -1)
else
  mut="PATCH DOES NOT APPLY"; base=""
fi
echo "$ID | clean: $clean | patched: $mut | $base"
cd /; git -C /repo worktree remove --force $WT
