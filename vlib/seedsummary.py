"""Write /verif/seeded/<id>/meta.json and /verif/seeded/SUMMARY.md from the agents' notes and run results."""
import json, os, glob, re
base = "/verif/seeded"
rows = []
for d in sorted(glob.glob(base + "/C*_*")):
    sid = os.path.basename(d)
    prop = sid.split("_")[0]
    try:
        agent = json.load(open(os.path.join(d, "meta.agent.json")))
    except Exception:
        agent = {}
    results = {}
    for rf in glob.glob(os.path.join(d, "result_*.txt")):
        txt = open(rf).read().strip()
        m = re.search(r'property=(\S+) tier=(\S+) exit=(\d+) violations=(\d+)', txt)
        if m:
            results[m.group(1)] = {"tier": m.group(2), "exit": int(m.group(3)), "violations": int(m.group(4)),
                                   "first": txt.split(" : ", 1)[-1][:300]}
    caught_by = [p for p, r in results.items() if r["exit"] == 1 and r["violations"] > 0]
    meta = {
        "id": sid, "property": prop,
        "summary": agent.get("summary", ""), "needs": agent.get("needs", ""), "files": agent.get("files", []),
        "confirmed": "vlib/verify_seed.sh: demo.rs passes on the unmodified tree, fails with patch.diff applied; 207/207 baseline tests still pass with the patch (cargo test --workspace --no-fail-fast --offline --lib --tests)",
        "checked_with": "vlib/seedrun.sh %s <property> (scratch worktree of /repo HEAD + patch, VERIF_REPO pointed at it)" % sid,
        "results": results, "caught_by": caught_by,
    }
    json.dump(meta, open(os.path.join(d, "meta.json"), "w"), indent=1)
    rows.append((sid, prop, agent.get("summary", "")[:110], ", ".join("%s:%s" % (p, "CAUGHT" if r["exit"] == 1 and r["violations"] else ("inconclusive" if r["exit"] == 2 else "missed")) for p, r in sorted(results.items())) or "not run"))
with open(os.path.join(base, "SUMMARY.md"), "w") as fh:
    fh.write("# Seeded changes and which checks catch them\n\n| id | property | change | result (quick tier unless noted) |\n|---|---|---|---|\n")
    for r in rows:
        fh.write("| %s | %s | %s | %s |\n" % r)
print(open(os.path.join(base, "SUMMARY.md")).read())
