"""Type-check harness files natively (real containers, feature verif_replay) -- fast feedback."""
import sys, os, subprocess
sys.path.insert(0, os.path.dirname(os.path.abspath(__file__)))
import stage as stg, registry
pid = sys.argv[1]; build = sys.argv[2] if len(sys.argv) > 2 else "ac"
base = "/var/tmp/gverif/cc_%s" % pid
attach = [(rel, os.path.join("/verif/harness", h), "verif_" + os.path.splitext(h)[0]) for rel, h in registry.attachments(pid, build)]
stg.stage(base + "/stage", "real", attach, replay=True)
env = dict(os.environ); env["CARGO_TARGET_DIR"] = "/var/tmp/gverif/cc_target"; env["VERIF_SHIM_CFG_DIR"] = base + "/stage"
p = subprocess.run(["cargo", "check", "--offline", "--lib", "--features", "verif_replay", "--tests"], cwd=base + "/stage", env=env, stdout=subprocess.PIPE, stderr=subprocess.STDOUT)
out = p.stdout.decode(errors="replace")
import re
errs = re.findall(r'(error(?:\[E\d+\])?:.*?)(?=\n(?:error|warning)|\Z)', out, re.S)
for e in errs[:12]:
    print(e[:1500]); print("-----")
print("rc", p.returncode)
