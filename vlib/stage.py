"""Staging: copy /repo's current working tree to a scratch dir and attach harness modules.

Function bodies of graphrs are never edited. Two textual transformations only:
  * append `#[cfg(kani)] #[path = ...] mod verif_<x>;` lines to source files (harness attach);
  * (K-ac build only) redirect the *imports* of HashMap/HashSet/IntMap/IntSet to the shim.
"""
import os, re, shutil, subprocess, sys

REPO = os.environ.get("VERIF_REPO", "/repo")
VERIF = os.path.dirname(os.path.dirname(os.path.abspath(__file__)))

class StageError(Exception):
    pass

IMPORT_RE = re.compile(r'^(\s*)use\s+(std::collections|nohash)::(\{[^}]*\}|\w+)\s*;\s*$')
SHIMMED = {"HashMap", "HashSet", "IntMap", "IntSet"}

def rewrite_imports(text):
    """Redirect container imports to crate::verif_shim. Returns (text, n_rewritten)."""
    out = []
    n = 0
    for line in text.split("\n"):
        m = IMPORT_RE.match(line)
        if not m:
            out.append(line)
            continue
        indent, root, items = m.groups()
        names = [x.strip() for x in items.strip("{}").split(",") if x.strip()]
        shim = [x for x in names if x in SHIMMED]
        keep = [x for x in names if x not in SHIMMED]
        if not shim:
            out.append(line)
            continue
        n += 1
        parts = []
        if keep:
            parts.append("%suse %s::{%s};" % (indent, root, ", ".join(keep)))
        parts.append("%suse crate::verif_shim::{%s};" % (indent, ", ".join(shim)))
        out.append(" ".join(parts))   # keep line numbering stable
    return "\n".join(out), n

def residual_container_paths(text):
    """Detect container uses the redirector does not understand (qualified paths)."""
    bad = []
    for i, line in enumerate(text.split("\n"), 1):
        s = line.strip()
        if s.startswith("//") or s.startswith("///") or s.startswith("*") or s.startswith("use "):
            continue
        if re.search(r'(std::collections::(HashMap|HashSet|hash_map|hash_set)|nohash::)', s):
            bad.append((i, s))
    return bad

def stage(dest, build, attach, cap=4, replay=False):
    """build: 'real' | 'ac'. attach: list of (relative source file, harness file abs path, modname)."""
    if os.path.exists(dest):
        shutil.rmtree(dest)
    os.makedirs(dest)
    shutil.copytree(os.path.join(REPO, "src"), os.path.join(dest, "src"))
    for f in ("Cargo.toml", "Cargo.lock", "README.md"):
        shutil.copy(os.path.join(REPO, f), os.path.join(dest, f))
    # stray non-module files in src/ (main-*.rs) are not part of the lib; drop them
    for f in os.listdir(os.path.join(dest, "src")):
        if f.startswith("main") and f.endswith(".rs"):
            os.remove(os.path.join(dest, "src", f))
    # offline
    os.makedirs(os.path.join(dest, ".cargo"))
    with open(os.path.join(dest, ".cargo", "config.toml"), "w") as fh:
        fh.write("[net]\noffline = true\n")
    with open(os.path.join(dest, "shim_cap.rs"), "w") as fh:
        fh.write("pub const CAP: usize = %d;\n" % cap)
    nrew = 0
    if build == "ac":
        for root, _, files in os.walk(os.path.join(dest, "src")):
            for f in files:
                if not f.endswith(".rs"):
                    continue
                p = os.path.join(root, f)
                t = open(p).read()
                t2, n = rewrite_imports(t)
                bad = residual_container_paths(t2)
                if bad:
                    raise StageError("unrecognised container path in %s: %r" % (p, bad[:3]))
                if n:
                    open(p, "w").write(t2)
                    nrew += n
        lib = os.path.join(dest, "src", "lib.rs")
        with open(lib, "a") as fh:
            fh.write('\n#[path = "%s/shim/verif_shim.rs"] pub(crate) mod verif_shim;\n' % VERIF)
    # feature used only by native replays of solver counterexamples
    ct = os.path.join(dest, "Cargo.toml")
    t = open(ct).read()
    if "[features]" in t:
        t = t.replace("[features]", "[features]\nverif_replay = []", 1)
    else:
        t += "\n[features]\nverif_replay = []\n"
    open(ct, "w").write(t)
    # crate-level feature gate needed by the Vec::push environment stub (C16); attribute only
    lib = os.path.join(dest, "src", "lib.rs")
    lt = open(lib).read()
    open(lib, "w").write("#![cfg_attr(kani, feature(allocator_api))]\n" + lt)
    guard = '#[cfg(any(kani, feature = "verif_replay"))]'
    with open(os.path.join(dest, "src", "lib.rs"), "a") as fh:
        fh.write('\n%s #[path = "%s/harness/vk.rs"] #[macro_use] pub(crate) mod vk;\n' % (guard, VERIF))
    for rel, hpath, modname in attach:
        p = os.path.join(dest, rel)
        if not os.path.exists(p):
            raise StageError("anchor file missing: %s" % rel)
        with open(p, "a") as fh:
            fh.write('\n%s #[path = "%s"] pub(crate) mod %s;\n' % (guard, hpath, modname))
    return nrew

if __name__ == "__main__":
    dest, build = sys.argv[1], sys.argv[2]
    print(stage(dest, build, []))
