"""Registry of harnesses per property."""

COMMON_ASSUMPTIONS = [
    "Kani 0.68 / CBMC 6.11 / CaDiCaL and rustc's MIR are trusted",
    "bounded: every harness runs with Kani's unwinding assertions enabled; a too-small bound is reported as inconclusive (exit 2)",
    "alloc::fmt::format is stubbed to return an empty String (error *kinds* are compared, never messages)",
    "CBMC check classes 'NaN on *' and 'arithmetic overflow on floating-point' are ignored: graphrs represents 'unweighted' as NaN and IEEE inf/NaN results are defined behaviour",
    "CBMC pointer/memory-safety checks are disabled (graphrs has no unsafe code); Rust-level panics, bounds checks, unwraps and integer-overflow assertions remain checked",
    "K-ac harnesses: std HashMap/HashSet and nohash IntMap/IntSet are replaced by /verif/shim/verif_shim.rs (finite map with unspecified iteration order); every K-ac counterexample is replayed against the real containers before it is reported",
    "one monomorphisation: Graph<Nm, u8> with Nm a u8 newtype (graphrs has no specialisation on T)",
]

import os
VERIF = os.path.dirname(os.path.dirname(os.path.abspath(__file__)))

CLAIMED = ["C01", "C02", "C03", "C05", "C06", "C09", "C10", "C11", "C12", "C15", "C16", "C17", "C18", "C20"]
NOT_APPLICABLE = {
    "C04": "the kernels dijkstra()/dijkstra_basic() keep a BinaryHeap whose order depends on the weights: with ONE symbolic weight on a constant 3-node topology CBMC's symbolic execution did not finish in 20 minutes; with constant weights a run takes 78 s but nothing is left for the solver to decide; the public wrappers (all_pairs, multi_source) additionally contain the rayon branch, whose catch_unwind intrinsic crashes kani-compiler 0.68 (harness kept unregistered in harness/dijkstra_ac.rs)",
    "C07": "schedules / threads are not expressible in Kani/CBMC (no model of rayon's worker threads, work stealing or atomics-based deques; kani-compiler 0.68 crashes on rayon's catch_unwind intrinsic); a sequential stub of the parallel iterator would assume the property instead of checking it",
    "C08": "same kernels as C04: target / cutoff / first_only / with_paths harnesses exist (harness/dijkstra_ac.rs) but do not finish symbolic execution with a symbolic weight; all_pairs / multi_source / get_all_shortest_paths_involving cannot be compiled by Kani (rayon branch)",
    "C13": "termination of Louvain's `while nb_moves > 0` / `while improvement` loops is the property; bounded model checking can only confirm a fixed unwinding, and one sweep re-enters modularity -> get_subgraph -> new_from_nodes_and_edges per community over floats, measured beyond the memory cap (three add_edge calls already exceed 24 GB)",
    "C14": "the weight clause quantifies over all f64 bit patterns through Display (Grisu/Dragon) and str::parse::<f64> (Eisel-Lemire: 64x64->128 multiplications on symbolic digits) and the name clause over quick-xml's escaper on buffers whose length depends on the symbolic bytes; neither can be bit-blasted within reach and no non-circular contract stub exists",
    "C19": "whole-string symbolic execution of quick-xml's reader (runtime CPU-feature detection in memchr, byte-scanning loops over symbolic buffers) is out of reach, and the event loop's input-derived unwraps sit inside one monolithic function that cannot be driven without the parser",
}

def H(name, build, what, tier="quick", covers=(), **kw):
    d = {"name": name, "build": build, "what": what, "tier": tier, "covers": list(covers)}
    d.update(kw)
    return d

PROPS = {}
ATTACH = {}

def _c10_cap(name):
    import re as _re
    m = _re.search(r'_m(\d+)', name)
    if m and ("weak" in name or "strong" in name or "bfsparts_d" in name) and bin(int(m.group(1))).count("1") > 4:
        return 8
    return 4


import gen as _gen

_AC_CREATION = [("src/graph/mod.rs", "model.rs"), ("src/graph/creation.rs", "creation_ac.rs")]

# ---------------------------------------------------------------- C01
ATTACH["C01"] = {"ac": _AC_CREATION}
PROPS["C01"] = {
    "harnesses": [
        H(name, "ac", what, tier=tier, covers=covers, bounds="<=4 nodes, <=3 stored edges, one mutation call (batch: two), unwind 7", timeout=1500)
        for (name, call, tier, covers, what) in _gen.c01_cases()
    ],
    "outside": "more than one policy-dependent mutation per scenario (histories are covered inductively: every pre-state shape of the catalogue x one step); "
               "node universes beyond {2,0,1,3,4}; more than 3 stored edges; T other than the u8 newtype",
    "assumptions": ["pre-states are produced by real add_node/add_edge calls under concrete permissive policies, then `specs` (a pub field) is overwritten by the symbolic policies: sound because no index depends on the policy fields"],
    "jobs": 10,
}

# ---------------------------------------------------------------- C02
ATTACH["C02"] = {"ac": [("src/graph/mod.rs", "model.rs"), ("src/graph/query.rs", "query_ac.rs")]}
PROPS["C02"] = {
    "harnesses": [
        H("c02_neighbor_dups_ds", "ac", "directed shape #6 (node 2 has the predecessors 0,1 and the successor 0): get_neighbor_nodes(2) lists each neighbour exactly once", covers=["reached end"], bounds="3 nodes, 3 edges", timeout=1200),
        H("c02_neighbor_dups_dm", "ac", "same on the directed multi-edge kind", covers=["reached end"], bounds="3 nodes, 3 edges", timeout=1200),
    ] + [
        H(name, "ac", what, tier=tier, covers=covers, bounds="3 nodes (+1 absent name), <=3 stored edges, unwind 9", timeout=1200)
        for (name, call, tier, covers, what) in _gen.c02_cases()
    ],
    "outside": "graphs with more than 3 nodes / 3 edges; the history quantifier is discharged by C01's step harnesses (every mutation preserves the index coherence these readers rely on) plus the build_direct-vs-history harnesses here",
    "assumptions": ["graphs are produced by /verif/harness/model.rs::build_direct, itself checked against real add_node/add_edge histories by the c02_build_* harnesses"],
    "jobs": 12,
}

# ---------------------------------------------------------------- C03
ATTACH["C03"] = {
    "real": [("src/graph/creation.rs", "creation_real.rs")],
    "ac": _AC_CREATION,
}
PROPS["C03"] = {
    "harnesses": [
        H("c03_kernel_adjvec_existing", "real", "add_to_adjacency_vec on a 2-entry list; 3 arbitrary f64 weights, symbolic target entry",
          covers=["replaced", "kept"], bounds="list length 2, unwind 4", timeout=300),
        H("c03_kernel_adjvec_new", "real", "add_to_adjacency_vec appending a new pair; symbolic (u,v) in 3x3, arbitrary f64 weights",
          covers=["same row", "other row"], bounds="3 rows, unwind 4", timeout=300),
    ] + [
        H(name, "ac", what, tier=tier, covers=covers, bounds="<=3 nodes, <=3 stored edges, one add_edge under symbolic policies, unwind 7", timeout=1500)
        for (name, call, tier, covers, what) in _gen.c03_cases()
    ],
    "outside": "more than 3 nodes / 3 edges per scenario; histories mixing weighted and unweighted edges (excluded by the property's quantifier)",
    "jobs": 10,
}

# ---------------------------------------------------------------- C04 / C08
_DIJ = {"ac": [("src/graph/mod.rs", "model.rs"), ("src/algorithms/shortest_path/dijkstra.rs", "dijkstra_ac.rs")]}
ATTACH["C04"] = _DIJ
ATTACH["C08"] = _DIJ
PROPS["C04"] = {
    "harnesses": [H(name, "ac", what, tier=tier, covers=covers, bounds="3 nodes, <=7 edges, weights 1..8, unwind 8", timeout=1800) for (name, call, tier, covers, what) in _gen.c04_cases()],
    "outside": "graphs with more than 3 nodes; non-integer weights (exact float equality is only meaningful for exact sums); zero weights in all-paths mode; the n > 20 parallel branch (C07); the position->name translation of single_source/multi_source/all_pairs (covered in the thorough tier of C08 only where it fits)",
    "assumptions": ["the index-level kernels dijkstra()/dijkstra_basic() are called directly on graphs produced by build_direct"],
    "jobs": 8,
}
PROPS["C08"] = {
    "harnesses": [H(name, "ac", what, tier=tier, covers=covers, bounds="3 nodes, weights 1..8, unwind 8", timeout=1800) for (name, call, tier, covers, what) in _gen.c08_cases()],
    "outside": "graphs with more than 3 nodes; all_pairs == multi_source == per-node single_source at the name level; get_all_shortest_paths_involving; symmetry / triangle inequality (follow from the oracle equality for every source)",
    "assumptions": ["the index-level kernels are called directly on graphs produced by build_direct"],
    "jobs": 8,
}

# ---------------------------------------------------------------- C05 / C06
ATTACH["C05"] = {"ac": [("src/graph/mod.rs", "model.rs"), ("src/algorithms/centrality/betweenness.rs", "betweenness_ac.rs")]}
PROPS["C05"] = {
    "harnesses": [
        H("c05_get_scale_all", "ac", "get_scale for every n <= 1000 and both flags", covers=["no scale"], bounds="n <= 1000", timeout=600),
    ] + [H(name, "ac", what, tier=tier, covers=covers, bounds="3 nodes; topology enumerated; unwind 8", timeout=1500, cap=_c10_cap(name.replace("c05_pub_d", "weak"))) for (name, call, tier, covers, what) in _gen.c05_cases()],
    "outside": "the weighted single-source stage (BinaryHeap Dijkstra in betweenness.rs: with one symbolic weight the symbolic execution exceeds 20 minutes, with constant weights the solver decides nothing) and therefore weighted betweenness as a whole; graphs with more than 3 nodes; the parallel branch (C07)",
    "assumptions": ["graphs are produced by build_direct (validated by the c02_build_* harnesses)"],
    "jobs": 10,
}
ATTACH["C06"] = {"ac": [("src/graph/mod.rs", "model.rs"), ("src/algorithms/centrality/closeness.rs", "closeness_ac.rs")]}
PROPS["C06"] = {
    "harnesses": [
    ] + [H(name, "ac", what, tier=tier, covers=covers, bounds="3 nodes; topology enumerated; unwind 8", timeout=1500) for (name, call, tier, covers, what) in _gen.c06_cases()],
    "outside": "the weighted search stage (BinaryHeap; same measurement as C05) and therefore weighted closeness; graphs with more than 3 nodes; the parallel branch (C07)",
    "assumptions": ["graphs are produced by build_direct (validated by the c02_build_* harnesses)"],
    "jobs": 10,
}

# ---------------------------------------------------------------- C09
ATTACH["C09"] = {"ac": [("src/graph/mod.rs", "model.rs"), ("src/graph/degree.rs", "degree_ac.rs")]}
PROPS["C09"] = {
    "harnesses": [
        H(name, "ac", what, tier=tier, covers=covers, bounds="3 nodes, <=3 stored edges (self-loop, parallel edges in both orientations, 3-cycle), unwind 9", timeout=1200)
        for (name, call, tier, covers, what) in _gen.c09_cases()
    ],
    "outside": "the sparse adjacency matrix (feature adjacency_matrix pulls in sprs; not encoded); graphs with more than 3 nodes; non-integer weights for the weighted identities (float sums are order dependent)",
    "assumptions": ["graphs are produced by build_direct (validated by the c02_build_* harnesses)"],
    "jobs": 12,
}

# ---------------------------------------------------------------- C10
ATTACH["C10"] = {"ac": [("src/graph/mod.rs", "model.rs"), ("src/algorithms/components/mod.rs", "components_ac.rs")]}
PROPS["C10"] = {
    "harnesses": [
        H(name, "ac", what, tier=tier, covers=covers, bounds="3 nodes; every topology enumerated by the generator (16 undirected, 128 directed), unwind %d" % (9 if _c10_cap(name) == 4 else 10), timeout=1500, cap=_c10_cap(name))
        for (name, call, tier, covers, what) in _gen.c10_cases()
    ],
    "outside": "graphs with more than 3 nodes (long cycles, nested SCCs of size > 3); hash-iteration orders other than the shim's slot order",
    "assumptions": ["graphs are produced by build_direct (validated by the c02_build_* harnesses)"],
    "jobs": 8,
}

# ---------------------------------------------------------------- C11
ATTACH["C11"] = {"ac": [("src/graph/mod.rs", "model.rs"), ("src/algorithms/cluster/mod.rs", "cluster_ac.rs")]}
PROPS["C11"] = {
    "harnesses": [H(name, "ac", what, tier=tier, covers=covers, bounds="3 nodes; topologies enumerated by the generator; unwind 9", timeout=1500, cap=_c10_cap(name.replace("c11_dir", "weak"))) for (name, call, tier, covers, what) in _gen.c11_cases()],
    "outside": "the weighted forms (f64::cbrt is an unsupported foreign function in Kani); graphs with more than 3 nodes (squares need 4); values compared within 1e-12",
    "assumptions": ["graphs are produced by build_direct (validated by the c02_build_* harnesses)"],
    "jobs": 10,
}

# ---------------------------------------------------------------- C12
ATTACH["C12"] = {"ac": [("src/graph/mod.rs", "model.rs"), ("src/algorithms/community/partitions.rs", "partitions_ac.rs")]}
_c12_ip = "3-node graph, family of %d sets over {2,0,1,3} given by a symbolic membership matrix (2^%d families incl. overlapping, incomplete and foreign-node ones): is_partition vs the set-theoretic definition"
PROPS["C12"] = {
    "harnesses": [
        H("c12_ispart_u_2sets", "ac", _c12_ip % (2, 8), covers=["a true partition", "not a partition"], bounds="3 nodes, 2 sets", timeout=1200),
        H("c12_ispart_d_2sets", "ac", _c12_ip % (2, 8) + " (directed)", tier="thorough", covers=["a true partition", "not a partition"], bounds="3 nodes, 2 sets", timeout=1200),
        H("c12_ispart_u_3sets", "ac", _c12_ip % (3, 12), tier="thorough", covers=["a true partition", "not a partition"], bounds="3 nodes, 3 sets", timeout=1800),
        H("c12_ispart_u_1set", "ac", _c12_ip % (1, 4), covers=["a true partition", "not a partition"], bounds="3 nodes, 1 set", timeout=900),
        H("c12_modguard_u_2sets", "ac", "modularity returns NotAPartition exactly for the non-partitions (symbolic 2x4 membership matrix), undirected", tier="full", covers=["a true partition"], bounds="3 nodes, 2 sets", timeout=3000),
        H("c12_modguard_d_2sets", "ac", "same, directed", tier="full", covers=["a true partition"], bounds="3 nodes, 2 sets", timeout=3000),
    ] + [
        H(n, "ac", "modularity value vs Newman's formula: %s; integer weights 1..8 symbolic, resolution in {0.5,1,2} symbolic; tolerance 1e-9" % w, tier=tr, covers=["reached end"], bounds="3 nodes, <=3 edges", timeout=1500)
        for (n, w, tr) in [
            ("c12_modval_us_s0_p0_w", "undirected path, partition {2,0},{1}, weighted", "full"),
            ("c12_modval_ds_s0_p0_w", "directed path, partition {2,0},{1}, weighted", "full"),
            ("c12_modval_us_s1_p0_u", "undirected with a self-loop, unweighted", "full"),
            ("c12_modval_ds_s1_p1_w", "directed with a self-loop, singletons, weighted", "full"),
            ("c12_modval_um_s2_p0_w", "undirected multi-edge (3 parallel edges), weighted", "thorough"),
            ("c12_modval_um_s2_p0_u", "undirected multi-edge (3 parallel edges), unweighted: parallel edges counted individually", "quick"),
            ("c12_modval_dm_s2_p2_w", "directed multi-edge, single community, weighted", "thorough"),
            ("c12_modval_us_s5_p0_w", "undirected 3-cycle, weighted", "full"),
            ("c12_modval_ds_s5_p1_u", "directed 3-cycle, singletons, unweighted", "full"),
        ]
    ],
    "outside": "graphs with more than 3 nodes; resolutions other than 0.5/1/2; f64::powf is replaced by x*x for exponent 2 (Kani models powf nondeterministically); modularity compared within 1e-9",
    "assumptions": ["f64::powf(x, 2.0) is stubbed as x*x", "graphs are produced by build_direct (validated by the c02_build_* harnesses)"],
    "jobs": 8,
}

# ---------------------------------------------------------------- C15
ATTACH["C15"] = {"ac": [("src/graph/mod.rs", "model.rs"), ("src/graph/convert.rs", "convert_ac.rs")]}
PROPS["C15"] = {
    "harnesses": [
        H("c15_rev_reciprocal_ds", "ac", "reverse on a 2-node directed single-edge graph with a reciprocal pair of arbitrary f64 weights: the weights swap direction", covers=["different weights"], bounds="2 nodes, 2 edges", timeout=1500),
        H("c15_rev_reciprocal_dm", "ac", "same on the directed multi-edge kind", covers=["different weights"], bounds="2 nodes, 2 edges", timeout=1500),
    ] + [
        H(name, "ac", what, tier=tier, covers=covers, bounds="3 nodes, <=3 stored edges in the source graph, unwind 9", timeout=1500)
        for (name, call, tier, covers, what) in _gen.c15_cases()
    ],
    "outside": "source graphs with more than 3 nodes / 3 edges; subsets S given symbolically (the generator enumerates 6 subsets incl. absent names and the empty set); non-permissive policy fields of the source specs (they are inherited by the result and only matter for later mutations, C01)",
    "assumptions": ["source graphs are produced by build_direct (validated by the c02_build_* harnesses)"],
    "jobs": 10,
}

# ---------------------------------------------------------------- C16
import native as _native
ATTACH["C16"] = {"ac": [("src/generators/random.rs", "random_real.rs"), ("src/generators/classic.rs", "classic_ac.rs")]}
_pairs_u3 = ["pair 1-0 occurs", "pair 2-0 occurs", "pair 2-1 occurs", "empty graph occurs", "complete graph occurs"]
_pairs_d3 = _pairs_u3 + ["pair 0-2 occurs", "pair 0-1 occurs", "pair 1-2 occurs"]
PROPS["C16"] = {
    "harnesses": [
        H("c16_gnp_undirected_n3", "ac", "fast_gnp_random_graph_undirected(3, p, rng): p any f64 in (0,1), every RNG output arbitrary, ln by sign contract; pair list in range / no self-loop / lower triangle / strictly increasing; every pair, the empty and the complete graph reachable; no overflow",
          covers=["pair 1-0 occurs", "pair 2-0 occurs", "pair 2-1 occurs", "empty graph occurs", "complete graph occurs"], cover_is_property=True, params={"n": 3, "directed": False}, replay=_native.replay_gnp, bounds="n=3, <=4 draws (unwind 5)", timeout=1500),
        H("c16_gnp_directed_n2", "ac", "fast_gnp_random_graph_directed(2, p, rng): as above for ordered pairs",
          covers=["pair 1-0 occurs", "pair 0-1 occurs", "empty graph occurs", "complete graph occurs"], cover_is_property=True, params={"n": 2, "directed": True}, replay=_native.replay_gnp, bounds="n=2, <=3 draws (unwind 5)", timeout=1500),
        H("c16_gnp_undirected_n2", "ac", "n=2 undirected", covers=["pair 1-0 occurs", "empty graph occurs"], cover_is_property=True,
          params={"n": 2, "directed": False}, replay=_native.replay_gnp, bounds="n=2 (unwind 5)", timeout=900),
        H("c16_guard_rejects_outside_unit_interval", "ac", "fast_gnp_random_graph(n, p, directed, seed) for every f64 p outside (0,1) incl. NaN/inf, n in 0..=300, any seed: InvalidArgument",
          covers=["probability one or more", "probability zero or less"], bounds="unwind 5", timeout=900),
        H("c16_complete_n0", "ac", "complete_graph(0, directed): directed symbolic; node set, edge count, every pair joined, no self-loops", covers=["directed", "undirected"], bounds="n=0", timeout=600),
        H("c16_complete_n1", "ac", "complete_graph(1, directed)", covers=["directed", "undirected"], bounds="n=1", timeout=600),
        H("c16_complete_n2_u", "ac", "complete_graph(2, false): directedness a constant (case split); nothing left symbolic - exhaustive bounded execution of the real generator + new_from_nodes_and_edges (one real add_edge) with all panics as assertions; measured 78 s + compile", covers=["undirected"], bounds="n=2", timeout=1500),
        H("c16_complete_n2_d", "ac", "complete_graph(2, true): case split as above; two real add_edge calls: no verdict in 15 min / 20 GB (M9, M10), 'full' tier only", tier="full", covers=["directed"], bounds="n=2", timeout=3000),
        H("c16_complete_n3_u", "ac", "complete_graph(3, false): case split as above", tier="full", covers=["undirected"], bounds="n=3", timeout=2400),
        H("c16_complete_n3_d", "ac", "complete_graph(3, true): case split as above", tier="full", covers=["directed"], bounds="n=3", timeout=2400),
        H("c16_complete_n2", "ac", "complete_graph(2, directed): measured > 15 min (itertools permutations/combinations over symbolic `directed`), 'full' tier only", tier="full", covers=["directed", "undirected"], bounds="n=2", timeout=3000),
        H("c16_complete_n3", "ac", "complete_graph(3, directed): > 24 GB, 'full' tier only", tier="full", covers=["directed", "undirected"], bounds="n=3", timeout=2400),
        H("c16_gnp_directed_n3", "ac", "n=3 directed (7 draws, unwind 8): measured > 24 GB, kept in the 'full' tier only", tier="full",
          covers=["pair 1-0 occurs", "pair 0-2 occurs"], cover_is_property=True, params={"n": 3, "directed": True}, replay=_native.replay_gnp, bounds="n=3, unwind 8", timeout=3000),
    ],
    "outside": "n > 4; the statistical clause (mean edge count over seeds) is replaced by reachability of every pair and strict monotonicity of the emitted sequence; karate_club_graph (a constant); complete_graph is checked under C16's K-ac harness",
    "assumptions": ["f64::ln is replaced by its sign contract on (0,1] (ln(1)=0, negative and >= -745.2 otherwise)", "Graph::add_node / add_edge_tuples are stubbed (recording the pair list); the real mutation code is the subject of C01",
                    "counterexamples are confirmed by a native seeded sweep of the public fast_gnp_random_graph, not value-by-value"],
    "jobs": 4,
}

# ---------------------------------------------------------------- C17
ATTACH["C17"] = {"ac": [("src/graph/mod.rs", "model.rs"), ("src/algorithms/community/louvain.rs", "louvain_ac.rs")]}
PROPS["C17"] = {
    "harnesses": [
        H("c17_update_best_com_order_u", "ac", "update_best_com (undirected gain) on a 2-entry neighbour-community map presented in both iteration orders; 12 symbolic integer weights/degrees/totals 1..8: same best community and gain", covers=["the node moves", "the node stays"], bounds="2 neighbour communities", timeout=900, replay=_native.replay_louvain),
        H("c17_update_best_com_order_d", "ac", "same for the directed gain", covers=["the node moves", "the node stays"], bounds="2 neighbour communities", timeout=900, replay=_native.replay_louvain),
    ],
    "outside": "whole louvain_partitions runs (C13: out of reach); other hash-order-dependent sites are not enumerated; fast_gnp_random_graph has no hash iteration (its kernels are covered by C16); the claim is kernel-level: the tie-breaking site named by the property's anchors",
    "assumptions": ["the shim iterates a map in insertion order, which turns the iteration order into a harness input", "counterexamples are confirmed natively by repeated seeded louvain_partitions calls on tie graphs (cycle, K3,3) in one process: more than one distinct result = reproduced"],
    "jobs": 2,
}

# ---------------------------------------------------------------- C18
ATTACH["C18"] = {"ac": [("src/graph/mod.rs", "model.rs"), ("src/algorithms/centrality/eigenvector.rs", "eigenvector_ac.rs")]}
PROPS["C18"] = {
    "harnesses": [
        H(n, "ac", w, tier=tr, covers=[], bounds="2 nodes, max_iter <= 2, unwind 6", timeout=1500)
        for (n, w, tr) in [
            ("c18_d_edge_w_i1", "directed edge 2->0 with symbolic integer weight, weighted, max_iter 1, tolerance in {1e-6,1e-2}: Ok => one entry per node, non-negative, unit norm; Err => PowerIterationFailedConvergence", "quick"),
            ("c18_d_edge_w_i2", "same with max_iter 2", "quick"),
            ("c18_u_edge_w_i2", "undirected edge, weighted, max_iter 2", "quick"),
            ("c18_u_isolated_i1", "two isolated nodes, max_iter 1", "quick"),
            ("c18_d_recip_w_i2", "reciprocal directed edges with different weights, max_iter 2", "thorough"),
        ]
    ],
    "outside": "graphs with more than 2 nodes; max_iter > 2; the approximate-fixed-point clause (one further step moves the vector by at most the tolerance-derived bound); tolerances other than 1e-6 / 1e-2; f64::powf(x, 2.0) stubbed as x*x",
    "assumptions": ["f64::powf(x, 2.0) is stubbed as x*x", "graphs are produced by build_direct"],
    "jobs": 5,
}

# ---------------------------------------------------------------- C19
ATTACH["C19"] = {"ac": [("src/readwrite/graphml.rs", "graphml_ac.rs")]}
PROPS["C19"] = {
    "harnesses": [
        H("c19_node_handler_4", "ac", "add_node(<node + 4 symbolic bytes from an 8-letter alphabet>)", covers=["an error was returned"], bounds="4 symbolic bytes", timeout=1500),
        H("c19_node_handler_6", "ac", "add_node(<node + 6 symbolic bytes>)", tier="thorough", covers=["a node was read", "an error was returned"], bounds="6 symbolic bytes", timeout=3000),
    ],
    "outside": "everything but the element handlers",
    "jobs": 2,
}

# ---------------------------------------------------------------- C20
ATTACH["C20"] = {"ac": [("src/graph/mod.rs", "model.rs"), ("src/algorithms/mod.rs", "totality_ac.rs")]}
PROPS["C20"] = {
    "harnesses": [H(name, "ac", what, tier=tier, covers=covers, bounds="<=3 nodes, <=4 edges; shapes and kinds enumerated; unwind 9", timeout=1500) for (name, call, tier, covers, what) in _gen.c20_cases()],
    "outside": "graphs with more than 3 nodes; the weighted forms of clustering (cbrt unsupported) and of the searches; GraphML and generators (C16/C19); hangs are only excluded up to the unwinding bound",
    "assumptions": ["graphs are produced by build_direct (validated by the c02_build_* harnesses)", "f64::powf(x, 2.0) is stubbed as x*x"],
    "jobs": 10,
}

def attachments(pid, build):
    return ATTACH[pid].get(build, [])
