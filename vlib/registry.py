"""Registry of harnesses per property."""

COMMON_ASSUMPTIONS = [
    "Kani 0.68 / CBMC 6.11 / CaDiCaL and rustc's MIR are trusted",
    "bounded: every harness runs with Kani's unwinding assertions enabled; a too-small bound is reported as inconclusive (exit 2)",
    "alloc::fmt::format is stubbed to return an empty String (error *kinds* are compared, never messages)",
    "CBMC check classes 'NaN on *' and 'arithmetic overflow on floating-point' are ignored: graphrs represents 'unweighted' as NaN and IEEE inf/NaN results are defined behaviour",
    "CBMC pointer/memory-safety checks are disabled (graphrs has no unsafe code); Rust-level panics, bounds checks, unwraps and integer-overflow assertions remain checked",
    "K-ac harnesses: std HashMap/HashSet and nohash IntMap/IntSet are replaced by /verif/shim/verif_shim.rs (finite map with unspecified iteration order); every K-ac counterexample is replayed against the real containers before it is reported",
    "one monomorphisation: Graph<Nm, u8> with Nm a u8 newtype (graphrs has no specialisation on T)",
]

def H(name, build, what, tier="quick", covers=(), **kw):
    d = {"name": name, "build": build, "what": what, "tier": tier, "covers": list(covers)}
    d.update(kw)
    return d

PROPS = {}
ATTACH = {}

import gen as _gen

_AC_CREATION = [("src/graph/mod.rs", "model.rs"), ("src/graph/creation.rs", "creation_ac.rs")]

# ---------------------------------------------------------------- C01
ATTACH["C01"] = {"ac": _AC_CREATION}
PROPS["C01"] = {
    "harnesses": [
        H(name, "ac", what, tier=tier, covers=covers, bounds="<=4 nodes, <=3 stored edges, one mutation call (batch: two), unwind 7", timeout=1500)
        for (name, call, tier, covers, what) in _gen.c01_cases()
    ],
    "outside": "more than one policy-dependent mutation per scenario (histories are covered inductively: every pre-state shape of the catalogue x one step); "
               "node universes beyond {2,0,1,3,4}; more than 3 stored edges; T other than the u8 newtype",
    "assumptions": ["pre-states are produced by real add_node/add_edge calls under concrete permissive policies, then `specs` (a pub field) is overwritten by the symbolic policies: sound because no index depends on the policy fields"],
    "jobs": 10,
}

# ---------------------------------------------------------------- C03
ATTACH["C03"] = {
    "real": [("src/graph/creation.rs", "creation_real.rs")],
    "ac": _AC_CREATION,
}
PROPS["C03"] = {
    "harnesses": [
        H("c03_kernel_adjvec_existing", "real", "add_to_adjacency_vec on a 2-entry list; 3 arbitrary f64 weights, symbolic target entry",
          covers=["replaced", "kept"], bounds="list length 2, unwind 4", timeout=300),
        H("c03_kernel_adjvec_new", "real", "add_to_adjacency_vec appending a new pair; symbolic (u,v) in 3x3, arbitrary f64 weights",
          covers=["same row", "other row"], bounds="3 rows, unwind 4", timeout=300),
    ] + [
        H(name, "ac", what, tier=tier, covers=covers, bounds="<=3 nodes, <=3 stored edges, one add_edge under symbolic policies, unwind 7", timeout=1500)
        for (name, call, tier, covers, what) in _gen.c03_cases()
    ],
    "outside": "more than 3 nodes / 3 edges per scenario; histories mixing weighted and unweighted edges (excluded by the property's quantifier)",
    "jobs": 10,
}

def attachments(pid, build):
    return ATTACH[pid].get(build, [])
