"""Scenario enumeration shared by the harness generator and the registry."""
import os
VERIF = os.path.dirname(os.path.dirname(os.path.abspath(__file__)))
def _allow(pid):
    """Measured allow-list for the thorough tier (harnesses that finished within the cap on the unchanged tree)."""
    import json
    try:
        return set(json.load(open(os.path.join(VERIF, "thorough_ok_%s.json" % pid))))
    except Exception:
        return None

KINDS = [("ds", True, False), ("us", False, False), ("dm", True, True), ("um", False, True)]
B = {True: "true", False: "false"}

OPS = [(2, 0), (0, 2), (2, 2), (0, 1), (2, 3), (3, 2), (3, 3), (3, 4), (1, 0), None, None, None, (2, 0)]
PRE_EDGES = {0: [], 1: [], 2: [(2, 0)], 3: [(2, 0), (0, 1)], 4: [(2, 2)], 5: [(2, 0)], 6: [(1, 0)]}
PRE_NODES = {0: [], 1: [2, 0], 2: [2, 0], 3: [2, 0, 1], 4: [2, 0], 5: [2, 0], 6: [2, 0, 1]}

def c01_is_dup(kn, pre, op):
    if 9 <= op <= 11:
        return False
    u, v = OPS[op]
    return any((a, b) == (u, v) or (kn in ("us", "um") and (b, a) == (u, v)) for (a, b) in PRE_EDGES[pre])

def c01_needs_create(pre, op):
    if 9 <= op <= 11:
        return False
    u, v = OPS[op]
    return u not in PRE_NODES[pre] or v not in PRE_NODES[pre]

def c01_mm_values(pre, op):
    """missing-node strategy: concrete (0 = Create, 1 = Error) when the operation names a node that
    is not in the pre-state, symbolic (2) otherwise."""
    return (0, 1) if c01_needs_create(pre, op) else (2,)

def c01_cost_class(kn, pre, op, dd, mm=2):
    """'cheap' (<= ~60 s) or 'heavy' (minutes / > 20 GB), from measurements: on single-edge kinds
    an operation that stores a *new* pair under dedupe Error/KeepFirst leaves a state whose shape
    depends on `Result<&Edge, Error>::is_ok()`, which CBMC cannot constant-fold; reading that
    state back costs minutes. The undirected duplicate self-loop under KeepLast is heavy too."""
    single = kn in ("ds", "us")
    if not single:
        return "cheap"
    if 9 <= op <= 11:
        return "cheap"
    if mm == 1:
        return "cheap"          # rejected before anything is touched
    if kn == "us" and (pre, op) == (4, 2):
        return "heavy"
    if not c01_is_dup(kn, pre, op) and dd != 2:
        return "heavy"
    return "cheap"

def c01_quick_pick(kn, pre, op, dd, mm=2):
    """Quick tier: every (pre, op) cell of the quick list on the cheap cost class; duplicate cells
    under all three dedupe strategies on both single-edge kinds; other cells rotate kinds."""
    if c01_cost_class(kn, pre, op, dd, mm) != "cheap":
        return False
    single = kn in ("ds", "us")
    dup_cells = {(2, 0), (2, 1), (6, 8), (6, 3), (4, 2), (2, 12)}
    if (pre, op) in dup_cells:
        if single:
            return True
        return dd == 0 and kn == ("dm" if (pre + op) % 2 == 0 else "um")
    if mm == 1:
        # rejected-for-missing-node cells: dedupe irrelevant, rotate
        return dd == (pre + op) % 3 and kn == ["ds", "us", "dm", "um"][(pre + op) % 4]
    if single:
        # both single-edge kinds: orientation / name-order effects only show on undirected graphs
        return dd == 2
    return dd == (pre + op) % 3 and kn == ("dm" if (pre + op) % 2 == 1 else "um")

def c01_cases():
    """(name, rust call, tier, covers, what)"""
    out = []
    # quick: policy-ladder cells on the characteristic pre-states
    quick = {
        # (pre, op)
        (0, 0), (0, 2), (0, 6),            # empty graph: create both / self-loop on missing node
        (1, 0), (1, 2), (1, 4), (1, 5),    # nodes only: fresh edge, self-loop, missing target / source
        (2, 0), (2, 1), (2, 3),            # stored edge: duplicate same / flipped orientation, fresh with missing node 1
        (4, 2),                            # stored self-loop: duplicate self-loop
        (6, 8), (6, 3),                    # name order != position order: duplicate same / flipped
        (2, 9), (2, 10), (2, 11), (2, 12), # add_node existing first/second, new; add_edge_tuple duplicate
    }
    pres = range(0, 7)
    ops = range(0, 13)
    for (kn, d, m) in KINDS:
        for pre in pres:
            for op in ops:
                if pre == 5 and not m:
                    continue   # same shape as pre 2 on single-edge kinds
                if pre in (3, 6) and op == 7:
                    continue   # would need 5 nodes (model bound MAXN = 4)
                for dd in range(3):
                  for mm in c01_mm_values(pre, op):
                   for sl in ((1, 2, 3) if (op < 9 and OPS[op][0] == OPS[op][1]) else (0,)):
                    if pre == 4 and sl in (2, 3):
                        continue   # pre-state #4 stores a self-loop: not reachable when self-loops are disallowed
                    tier = "quick" if ((pre, op) in quick and c01_quick_pick(kn, pre, op, dd, mm)) else ("thorough" if c01_cost_class(kn, pre, op, dd, mm) == "cheap" else "full")
                    if tier == "thorough" and kn in ("dm", "um") and (dd != (pre + op) % 3 or mm == 1):
                        tier = "full"   # multi-edge kinds ignore the dedupe strategy: one strategy per cell in the thorough tier
                    if tier == "thorough" and pre in (0, 1) and op in (3, 8, 7):
                        tier = "full"   # node-creating variants of cells already covered by ops 4-6
                    if tier == "thorough" and (pre in (0, 3, 5) or kn in ("dm", "um")):
                        tier = "full"   # thorough = the single-edge kinds on the pre-states with at most one stored edge
                    if sl in (2, 3) and tier == "full" and c01_cost_class(kn, pre, op, 2, mm) == "cheap":
                        tier = "thorough"   # a rejected / dropped self-loop touches nothing: cheap under every dedupe strategy
                    name = "c01_step_%s_p%d_o%02d_d%d_m%d_l%d" % (kn, pre, op, dd, mm, sl)
                    call = "c01_step(%s, %s, %d, %d, %d, %d, %d)" % (B[d], B[m], pre, op, dd, mm, sl)
                    rejected = (mm == 1 and sl != 3 and sl != 2) or (mm == 1 and sl == 0) or (c01_is_dup(kn, pre, op) and dd == 0 and kn in ("ds", "us") and sl in (0, 1)) or sl == 2
                    if sl == 3:
                        covers = ["op accepted"]        # dropped silently: Ok
                    elif rejected:
                        covers = ["op rejected"]
                    else:
                        covers = ["op accepted"]
                    what = "kind=%s pre-state #%d, operation #%d, dedupe=%d, missing-node strategy %s, self-loop policy %s; remaining policy fields, weights and attributes symbolic" % (
                        kn, pre, op, dd, ["Create", "Error", "symbolic"][mm], ["symbolic", "allowed", "rejected", "dropped"][sl])
                    out.append((name, call, tier, covers, what))
    # public getters + full O(n^2) representation invariant after a concrete-policy operation
    for (kn, d, m) in KINDS:
        for (pre, op) in [(2, 0), (2, 1), (3, 8), (6, 3), (1, 2), (2, 7), (2, 4)]:
            for dd in range(3):
                tier = "quick" if ((pre, op) == (2, 7) and dd == 0 and kn == "um") else ("thorough" if kn in ("dm", "um") else "full")
                name = "c01_getters_%s_p%d_o%02d_d%d" % (kn, pre, op, dd)
                call = "c01_getters(%s, %s, %d, %d, %d)" % (B[d], B[m], pre, op, dd)
                out.append((name, call, tier, [], "kind=%s pre-state #%d, add_edge #%d under concrete permissive policies with dedupe=%d; weights/attributes symbolic; public getters and the full representation invariant" % (kn, pre, op, dd)))
    # batches (thorough, plus two quick ones)
    for (kn, d, m) in KINDS:
        for (pre, o1, o2, which, tier) in [(1, 0, 1, 0, "quick"), (1, 2, 0, 0, "thorough"), (1, 4, 0, 1, "quick"),
                                           (2, 3, 0, 0, "thorough"), (0, 0, 0, 1, "thorough"), (1, 0, 4, 0, "thorough")]:
            if tier == "quick" and kn in ("dm",):
                tier = "thorough"
            name = "c01_batch_%s_p%d_o%02d_o%02d_%s" % (kn, pre, o1, o2, "edges" if which == 0 else "tuples")
            call = "c01_batch(%s, %s, %d, %d, %d, %d, %d, %d)" % (B[d], B[m], pre, o1, o2, which, 2 if kn in ("ds", "us") else (pre + o1 + o2) % 3, 1 if (c01_needs_create(pre, o1) or c01_needs_create(pre, o2)) else 2)
            out.append((name, call, tier, ["op rejected"] if (c01_needs_create(pre, o1) or c01_needs_create(pre, o2)) else ["op accepted"],
                        "kind=%s pre-state #%d, batch of two edges (#%d,#%d) via %s; policies symbolic" % (kn, pre, o1, o2, "add_edges" if which == 0 else "add_edge_tuples")))
    for (kn, d, m) in KINDS:
        for dd in range(3):
            for create in (True, False):
                tier = "full"   # measured: three policy-dependent add_edge calls from empty = 1.2 M steps, > 24 GB
                name = "c01_new_%s_d%d_%s" % (kn, dd, "create" if create else "error")
                call = "c01_from_nodes_and_edges(%s, %s, %d, %s)" % (B[d], B[m], dd, B[create])
                out.append((name, call, tier, [], "new_from_nodes_and_edges, kind=%s dedupe=%d create=%s; weights/attributes symbolic" % (kn, dd, create)))
    allow = _allow("C01")
    if allow is not None:
        out = [(n, c, ("full" if (tr == "thorough" and n not in allow) else tr), cv, w) for (n, c, tr, cv, w) in out]
    return out


def c03_quick_pick(kn, pre, op, dd):
    single = kn in ("ds", "us")
    if not single:
        # multi-edge kinds: every dedupe strategy on the duplicate cells (the strategy must be ignored there)
        return dd == 0 or (pre, op) in {(2, 0), (2, 1), (5, 0)}
    if pre == 3:
        return False
    # measured > 3 min each: fresh edge on a directed single-edge graph under Error/KeepFirst,
    # duplicate undirected self-loop
    return c01_cost_class(kn, pre, op, dd) == "cheap"

def c03_cases():
    out = []
    quick = {(2, 0), (2, 1), (6, 8), (6, 3), (4, 2), (5, 0), (3, 1)}
    for (kn, d, m) in KINDS:
        for pre in range(2, 7):
            for op in (0, 1, 2, 3, 8):
                if pre == 5 and not m:
                    continue
                for dd in range(3):
                    mm = 0 if c01_needs_create(pre, op) else 2
                    tier = "quick" if ((pre, op) in quick and c03_quick_pick(kn, pre, op, dd)) else ("thorough" if c01_cost_class(kn, pre, op, dd) == "cheap" else "full")
                    name = "c03_step_%s_p%d_o%02d_d%d" % (kn, pre, op, dd)
                    sl = 1 if (op == 2 and pre != 4) else 0   # a fresh self-loop is checked with self-loops allowed (conditional storage: > 24 GB)
                    call = "c03_step(%s, %s, %d, %d, %d, %d, %d)" % (B[d], B[m], pre, op, dd, mm, sl)
                    out.append((name, call, tier, [], "kind=%s pre-state #%d then add_edge #%d, dedupe=%d; 8 remaining policy combinations and f64 weights symbolic (uniformly weighted or unweighted)" % (kn, pre, op, dd)))
    return out

def c02_admissible(d, m, s):
    if s == 2 and not m:
        return False
    if s in (3, 6) and not d and not m:
        return False
    return True

C02_GROUPS = [
    ("pairs", "c02_pairs", [], "get_edge / get_edges for all 16 ordered pairs over {2,0,1,3}"),
    ("nodeedges", "c02_node_edges", ["reached end"], "get_edges_for_node / get_in_edges_for_node / get_out_edges_for_node for every name incl. an absent one"),
    ("setedges", "c02_nodes_edges", ["reached end"], "get_edges_for_nodes / in / out for a 2-element set and a set with an absent name"),
    ("neigh", "c02_neighbours", ["reached end"], "successor / predecessor / neighbour queries, name lists and name-keyed maps for every name"),
    ("nodes", "c02_nodes_bfs", ["reached end"], "has_node(s), name<->position round trip, attributes by position"),
    ("build", "c02_build_matches_history", ["reached end"], "build_direct vs real add_node/add_edge history: same abstraction, full representation invariant on both"),
]

def c02_cases():
    out = []
    quick = {("pairs", 1), ("pairs", 2), ("pairs", 3), ("nodeedges", 1), ("nodeedges", 2), ("setedges", 5), ("neigh", 1), ("neigh", 5),
             ("nodes", 0), ("nodes", 5), ("build", 1), ("build", 2), ("build", 5), ("build", 0), ("neigh", 6), ("nodeedges", 6)}
    for (kn, d, m) in KINDS:
        for s in range(7):
            if not c02_admissible(d, m, s):
                continue
            for (gname, fn, covers, what) in C02_GROUPS:
                tier = "quick" if (gname, s) in quick else "thorough"
                if gname == "build" and kn in ("ds", "us") and len({0: 2, 1: 2, 2: 3, 3: 2, 4: 0, 5: 3, 6: 3}[s] * [0]) >= 3:
                    tier = "full"     # three real add_edge calls on a single-edge kind: measured > 24 GB
                if gname == "build" and kn == "us" and tier == "quick" and s != 1:
                    tier = "thorough"
                if gname == "neigh" and s in (5, 6) and kn not in ("dm",):
                    tier = "thorough" if tier == "quick" else tier
                name = "c02_%s_%s_s%d" % (gname, kn, s)
                call = "%s(%s, %s, %d)" % (fn, B[d], B[m], s)
                out.append((name, call, tier, covers, "kind=%s shape #%d: %s; weights and attributes symbolic" % (kn, s, what)))
            for start in range(3):
                tier = "quick" if (s == 5 and start == 0 and kn == "ds") or (s == 1 and start == 2 and kn == "dm") else ("thorough" if d else "full")
                out.append(("c02_bfs_%s_s%d_n%d" % (kn, s, start), "c02_bfs(%s, %s, %d, %d)" % (B[d], B[m], s, start), tier, ["reached end"],
                            "kind=%s shape #%d: breadth_first_search from the node at position %d vs the reachability closure" % (kn, s, start)))
    return out

def c09_cases():
    out = []
    for (kn, d, m) in KINDS:
        for s in range(3):
            out.append(("c09_small_%s_s%d" % (kn, s), "c09_small(%s, %s, %d)" % (B[d], B[m], s), "quick" if kn in ("ds", "um") else "thorough", ["reached end"],
                        "kind=%s two-node graph #%d (edge / edgeless / self-loop): degree_centrality = degree/(n-1), density, degrees with n = 2" % (kn, s)))
    for (kn, d, m) in KINDS:
        for s in range(6):
            if not c02_admissible(d, m, s):
                continue
            for (gname, fn) in [("counts", "c09_counts"), ("weighted", "c09_weighted")]:
                tier = "quick" if s in (1, 2, 5) or (s == 3 and gname == "counts") else "thorough"
                out.append(("c09_%s_%s_s%d" % (gname, kn, s), "%s(%s, %s, %d)" % (fn, B[d], B[m], s), tier, ["reached end"],
                            "kind=%s shape #%d: %s; integer weights 1..8 symbolic" % (kn, s, "node/edge counts, size, degrees, handshake identities" if gname == "counts" else "weighted degrees, density, degree centrality")))
    return out

def c10_cases():
    """Topologies are enumerated by the generator (constant mask per harness): a symbolic mask makes
    the container shapes symbolic and did not finish symbolic execution in 20 minutes. Undirected:
    4 potential edges (3 pairs + a self-loop) = 16 graphs; directed: 7 (6 ordered pairs + a
    self-loop) = 128 graphs. thorough = all of them; quick = all undirected + a spread of directed."""
    out = []
    for mask in range(16):
        # measured: undirected graphs with >= 2 non-loop edges run into the 25-minute cap (get_neighbor_nodes'
        # itertools sort/dedup pipeline under BFS); they are kept in the 'full' tier
        nonloop = bin(mask & 0b0111).count("1")
        out.append(("c10_und_m%02d" % mask, "c10_undirected(%d, false)" % mask, ("quick" if nonloop <= 1 and mask not in (0b1010, 0b1100) else "full"), [],
                    "undirected single-edge graph on nodes [2,0,1], topology mask %s: connected_components / number_of_ / node_connected_component vs closure oracle; WrongMethod guards" % format(mask, "04b")))
    for mask in (0b0011, 0b1111, 0b0101):
        out.append(("c10_undmulti_m%02d" % mask, "c10_undirected(%d, true)" % mask, "full", [], "same on the multi-edge kind, mask %s" % format(mask, "04b")))
    # 12, 17, 34 = a sink with two predecessors (1->2,0->2 / 2->0,1->0 / 0->1,2->1): added after seed C10_3 was missed
    quick_d = {0, 1, 3, 7, 9, 12, 17, 18, 21, 27, 34, 36, 42, 63, 64, 73, 85, 100, 127}
    for mask in range(128):
        for (w, nm) in ((0, "weak"), (1, "strong")):
            tier = "quick" if mask in quick_d else "thorough"
            out.append(("c10_%s_m%03d" % (nm, mask), "c10_directed(%d, false, %d)" % (mask, w), tier, [],
                        "directed graph on nodes [2,0,1], topology mask %s: %s_connected_components vs closure oracle%s" % (format(mask, "07b"), "weakly" if w == 0 else "strongly", "; WrongMethod guards" if w == 0 else "")))
    for d in (True, False):
        masks = (0, 1, 7, 21, 63, 100) if d else (0, 1, 3, 7, 12)
        for mask in masks:
            for k in (1, 2, 3):
                tier = "quick" if (k == 2 and mask in (7, 1)) or (k == 3 and mask == 0) else "thorough"
                out.append(("c10_bfsparts_%s_m%03d_k%d" % ("d" if d else "u", mask, k), "c10_bfs_partitions(%s, %d, %d)" % (B[d], mask, k), tier, ["reached end"],
                            "%s graph, topology mask %d: bfs_equal_size_partitions(%d): k parts, every node once, size bound" % ("directed" if d else "undirected", mask, k)))
    return out

def c15_cases():
    out = []
    # subsets over [2,0,1,3] as bitmasks: {2,0}=0b0011, {0,1,3}=0b1110, {1}=0b0100, all=0b0111, {}=0, {2,1}=0b0101
    for (kn, d, m) in KINDS:
        for s in (0, 1, 3, 5):
            if not c02_admissible(d, m, s):
                continue
            for set_ in (0b0011, 0b1110, 0b0100, 0b0111, 0b0000, 0b0101):
                quick = (s, set_) in {(0, 0b0011), (1, 0b1110), (3, 0b0011), (0, 0b0100)} and kn in ("dm", "us")
                heavy = (kn in ("ds", "us")) and s == 5 and set_ == 0b0111
                tier = "quick" if quick else ("full" if heavy else "thorough")
                out.append(("c15_sub_%s_s%d_x%d" % (kn, s, set_), "c15_subgraph(%s, %s, %d, %d)" % (B[d], B[m], s, set_), tier, ["reached end"],
                            "kind=%s shape #%d: get_subgraph(S) for the concrete S mask %s; weights/attributes symbolic" % (kn, s, bin(set_))))
        for s in (0, 1, 3):
            if not c02_admissible(d, m, s):
                continue
            tier = "quick" if (s in (1, 3) and kn == "dm") else ("full" if kn == "ds" else "thorough")
            out.append(("c15_rev_%s_s%d" % (kn, s), "c15_reverse_reweight(%s, %s, %d)" % (B[d], B[m], s), tier, ["reached end"],
                        "kind=%s shape #%d: reverse (twice = identity), set_all_edge_weights(w) for arbitrary f64 w; WrongMethod guards" % (kn, s)))
        for s in (2, 3, 0):
            if not c02_admissible(d, m, s):
                continue
            tier = "quick" if (s == 2 and m) or (s == 0 and kn == "ds") else "thorough"
            out.append(("c15_collapse_%s_s%d" % (kn, s), "c15_collapse(%s, %s, %d)" % (B[d], B[m], s), tier, ["reached end"] + (["a group was collapsed"] if (m and s in (2,)) or (kn == "um" and s == 3) else []),
                        "kind=%s shape #%d: to_single_edges (integer weights 1..8, exact sums); WrongMethod guard" % (kn, s)))
    return out

def c04_cases():
    out = []
    # directed masks over [(2,0),(0,1),(1,2),(0,2),(1,0),(2,1),(1,1)]; undirected over [(2,0),(0,1),(1,2),(1,1)]
    dmasks = [0b0000111, 0b0001011, 0b0111111, 0b1000011, 0b0000001, 0b0010101]
    umasks = [0b0111, 0b0011, 0b1111, 0b0101]
    for (d, masks, nm) in ((True, dmasks, "d"), (False, umasks, "u")):
        for mask in masks:
            for src in (0, 1, 2):
                for wtd in (True, False):
                    q = (mask in (0b0000111, 0b0001011) and d and src == 0 and wtd) or (mask == 0b0111 and not d and src == 1 and wtd) or (mask == 0b0001011 and d and src == 0 and not wtd)
                    tier = "quick" if q else "thorough"
                    wn = "w" if wtd else "h"
                    out.append(("c04_all_%s_m%03d_s%d_%s" % (nm, mask, src, wn), "c04_all_paths(%s, %d, %d, %s, 255)" % (B[d], mask, src, B[wtd]), tier, ["reached end"],
                                "%s 3-node topology mask %s, source position %d, %s: dijkstra all-paths vs Bellman-Ford + path-count oracle; integer weights 1..8 symbolic" % ("directed" if d else "undirected", bin(mask), src, "weighted" if wtd else "hop count")))
    return out

def c08_cases():
    out = []
    dmasks = [0b0000111, 0b0001011, 0b0111111]
    umasks = [0b0111, 0b0011]
    for (d, masks, nm) in ((True, dmasks, "d"), (False, umasks, "u")):
        for mask in masks:
            for src in (0, 1, 2):
                q = (mask == 0b0001011 and src == 0) or (mask == 0b0111 and src == 1 and not d)
                out.append(("c08_var_%s_m%03d_s%d" % (nm, mask, src), "c08_variants(%s, %d, %d, true, 255)" % (B[d], mask, src), "quick" if q else "thorough", ["reached end"],
                            "%s mask %s source %d: dijkstra_basic == dijkstra distances; with_paths=false; first_only returns one shortest path; option dispatch" % ("directed" if d else "undirected", bin(mask), src)))
                out.append(("c08_tc_%s_m%03d_s%d" % (nm, mask, src), "c08_target_cutoff(%s, %d, %d, true, 255)" % (B[d], mask, src), "quick" if q else "thorough", ["reached end"],
                            "%s mask %s source %d: symbolic target and symbolic cutoff (every integer and half-integer threshold up to 20) vs the unrestricted answer" % ("directed" if d else "undirected", bin(mask), src)))
    return out

def c11_cases():
    """Measured: the undirected functions (all built on get_neighbor_nodes' itertools sort/dedup pipeline)
    exceed 25 minutes as soon as the graph has two non-loop edges; those topologies are 'full' tier."""
    out = []
    for mask in range(16):
        nonloop = bin(mask & 0b0111).count("1")
        cheap = nonloop <= 1 and mask not in (0b1010, 0b1100)
        for subset in (0, 1, 2, 3, 4):
            if subset in (2, 3) and mask not in (0b0111, 0b0011, 0b1111):
                continue
            if cheap:
                tier = "quick" if subset in (0, 4) else "thorough"
            else:
                tier = "full"
            out.append(("c11_und_m%02d_x%d" % (mask, subset), "c11_undirected(%d, %d)" % (mask, subset), tier, ["reached end"],
                        "undirected topology mask %s, node subset #%d: triangles, clustering, generalized_degree, average_clustering, transitivity, square_clustering vs brute-force oracles" % (format(mask, "04b"), subset)))
    for mask in (0b0000111, 0b0001011, 0b0111111, 0b1000111, 0b0010101, 0b0000001, 0b0011011, 0b0000000, 0b0001001, 0b0011111, 0b0001111, 0b0101111):
        for subset in (0, 1, 2):
            # 0b0001111: the 3-cycle plus the reciprocal of one of its edges (a triangle through a reciprocal pair)
            q = (mask, subset) in {(0b0000111, 0), (0b0001011, 1), (0b0011011, 2), (0b0001001, 0), (0b0011011, 0), (0b1000111, 0), (0b0001111, 0), (0b0111111, 0)}
            out.append(("c11_dir_m%03d_x%d" % (mask, subset), "c11_directed(%d, %d)" % (mask, subset), "quick" if q else "thorough", ["reached end"],
                        "directed topology mask %s, node subset #%d: clustering vs Fagiolo's formula; WrongMethod for the undirected-only functions" % (format(mask, "07b"), subset)))
    out.append(("c11_und_selfloop_neighbour", "c11_undirected_small()", "full", ["reached end"], "two-node undirected graph: edge (2,0) and a self-loop on the neighbour 0: self-loops never count as triangles"))
    out.append(("c11_multi_refused_u", "c11_multi_refused(false)", "full", ["reached end"], "undirected multi-edge graph: every cluster function returns WrongMethod"))
    out.append(("c11_multi_refused_d", "c11_multi_refused(true)", "quick", ["reached end"], "directed multi-edge graph: clustering returns WrongMethod"))
    return out

def c05_cases():
    out = []
    for n in range(0, 6):
        out.append(("c05_rescale_n%d" % n, "c05_rescale(%d)" % n, "quick" if n in (0, 2, 3) else ("thorough" if n == 1 else "full"), ["normalized", "halved"] if n > 0 else [],
                    "rescale on a vector of length %d with arbitrary finite values; normalized and directed symbolic" % n))
    for dag in range(8):
        if dag & 4 and not dag & 1:
            continue
        out.append(("c05_accumulate_dag%d" % dag, "c05_accumulate(%d)" % dag, "quick", ["reached end"],
                    "accumulate_betweenness on the shortest-path DAG #%d over 3 nodes (source 0), arbitrary finite previous betweenness vector" % dag))
    dq = {0b0000111, 0b0001011, 0b0001111, 0b0000011}
    for mask in (0b0000111, 0b0001011, 0b0001111, 0b0000011, 0b0010101, 0b0000000, 0b1000111, 0b0011011):
        out.append(("c05_pub_d_m%03d" % mask, "c05_public_unweighted(true, %d)" % mask, "quick" if mask in dq else "thorough", ["normalized", "raw"],
                    "directed topology mask %s: bfs stage (S, P, sigma) and betweenness_centrality(hop counts) vs the definition; normalized symbolic" % format(mask, "07b")))
    for mask in range(16):
        out.append(("c05_pub_u_m%02d" % mask, "c05_public_unweighted(false, %d)" % mask, "quick" if mask in (0b0011, 0b0111, 0b1011) else "thorough", ["normalized", "raw"],
                    "undirected topology mask %s: bfs stage and betweenness_centrality(hop counts) vs the definition; normalized symbolic" % format(mask, "04b")))
    return out

def c06_cases():
    out = []
    for n in range(1, 5):
        for r in range(1, n + 1):
            out.append(("c06_formula_n%d_r%d" % (n, r), "c06_formula(%d, %d)" % (n, r), "quick" if (n, r) in ((1, 1), (2, 2), (3, 2), (4, 3), (4, 1)) else "thorough", ["wf_improved", "plain"],
                        "get_node_centrality for n = %d nodes of which r = %d reach the node; integer distances 1..3 and the WF flag symbolic" % (n, r)))
    dq = {0b0000111, 0b0001011, 0b0000011}
    for mask in (0b0000111, 0b0001011, 0b0001111, 0b0000011, 0b0010101, 0b0000000, 0b1000111):
        # directed: closeness reverses the graph first (new_from_nodes_and_edges with 2-3 edges): measured > 25 min
        out.append(("c06_pub_d_m%03d" % mask, "c06_public_unweighted(true, %d)" % mask, "full" if bin(mask).count("1") >= 2 else ("quick" if mask in (0b0000001, 0b0000000) else "thorough"), ["wf_improved", "plain"],
                    "directed topology mask %s: BFS distances and closeness_centrality(hop counts, incoming distance) vs the definition; wf_improved symbolic" % format(mask, "07b")))
    for mask in range(16):
        out.append(("c06_pub_u_m%02d" % mask, "c06_public_unweighted(false, %d)" % mask, "quick" if mask in (0b0011, 0b0111, 0b0001) else "thorough", ["wf_improved", "plain"],
                    "undirected topology mask %s: BFS distances and closeness_centrality(hop counts) vs the definition; wf_improved symbolic" % format(mask, "04b")))
    return out

C20_GROUPS = ["cluster", "clustersub", "components", "degrees", "centrality", "paths", "partitions", "eigen"]
def c20_admissible(d, m, l, s):
    if s in (3, 6) and not l:
        return False
    if s == 4 and not m:
        return False
    return True

def _allow_unused(pid):
    """Measured allow-list for the thorough tier (harnesses that finished within 400 s on the unchanged tree)."""
    import json
    try:
        return set(json.load(open(os.path.join(VERIF, "thorough_ok_%s.json" % pid))))
    except Exception:
        return None

def c20_cases():
    out = []
    quick = {(0, 0), (5, 0), (1, 2), (2, 2), (5, 2), (3, 1), (6, 1), (5, 5), (4, 7), (0, 3), (1, 3), (2, 4), (0, 6), (5, 6), (0, 5), (3, 0), (5, 4)}
    for d in (True, False):
        for m in (False, True):
            for l in (False, True):
                kn = ("d" if d else "u") + ("m" if m else "s") + ("l" if l else "n")
                for s in range(7):
                    if not c20_admissible(d, m, l, s):
                        continue
                    for gi, gname in enumerate(C20_GROUPS):
                        # quick: each (shape, group) cell of the quick list once, on a rotating kind
                        pick = (s, gi) in quick and ((kn == "usl" and gi in (0, 1, 2, 6)) or (kn == "dsl" and gi in (3, 4, 5)) or (kn == "uml" and gi == 7 and s == 4) or (kn == "dsn" and s in (0, 1) and gi in (2, 3)))
                        # measured > 25 min: single_source on graphs with an edge (shape 5/6), undirected cluster functions on the triangle
                        heavy = (gi == 5 and s in (5, 6)) or (gi in (0, 1) and s == 6 and not d)
                        tier = "full" if heavy else ("quick" if pick else "thorough")
                        # thorough tier: the four single-edge kinds with self-loops allowed or not on one direction each, plus
                        # one multi-edge kind; the remaining kinds repeat the same code paths and are kept in the full tier
                        if tier == "thorough" and kn not in ("dsl", "usl", "dsn", "uml"):
                            tier = "full"
                        out.append(("c20_%s_s%d_%s" % (kn, s, gname), "c20_harness!(c20_%s_s%d_%s, %s, %s, %s, %d, %d);" % (kn, s, gname, B[d], B[m], B[l], s, gi), tier, ["reached end"],
                                    "kind=%s degenerate shape #%d: %s functions return a value or an Error (no panic / overflow)" % (kn, s, gname)))
                # constant-input weighted searches: fast path, target, cutoff on a tie graph with a zero-weight self-loop
                if l and not m:
                    for s in (5, 6):
                        out.append(("c20_%s_s%d_weightedconst" % (kn, s), "c20_harness!(c20_%s_s%d_weightedconst, %s, %s, %s, %d, 9);" % (kn, s, B[d], B[m], B[l], s), "quick" if kn == "dsl" else "thorough", ["reached end"],
                                    "kind=%s: weighted single_source (distance-only fast path, then %s with with_paths=false) on a constant tie graph with a zero-weight self-loop: terminates without panic" % (kn, "a target" if s == 5 else "a cutoff")))
                # weighted single_source with a tie and (shape 6 on self-loop kinds) a zero-weight self-loop; options symbolic
                for s in (5, 6):
                    if s == 6 and not l:
                        continue
                    if m:
                        continue
                    tier = "full"   # measured > 25 min (BinaryHeap search with symbolic options)
                    out.append(("c20_%s_s%d_weightedpaths" % (kn, s), "c20_harness!(c20_%s_s%d_weightedpaths, %s, %s, %s, %d, 8);" % (kn, s, B[d], B[m], B[l], s), tier, ["reached end"],
                                "kind=%s: weighted single_source on a constant tie graph%s, target / cutoff / first_only / with_paths symbolic: returns without panic" % (kn, " with a zero-weight self-loop" if s == 6 else "")))
    allow = _allow("C20")
    if allow is not None:
        out = [(n, c, ("full" if (tr == "thorough" and n not in allow) else tr), cv, w) for (n, c, tr, cv, w) in out]
    return out

def emit():
    lines = ["// GENERATED by /verif/vlib/gen.py -- do not edit by hand.\n"]
    for (name, call, tier, covers, what) in c01_cases() + c03_cases():
        lines.append("crate::vharness! { unwind = 7; fn %s() { %s } }\n" % (name, call))
    open(os.path.join(VERIF, "harness", "gen_creation_ac.rs"), "w").write("".join(lines))
    lines = ["// GENERATED by /verif/vlib/gen.py -- do not edit by hand.\n"]
    for (name, call, tier, covers, what) in c02_cases():
        lines.append("crate::vharness! { unwind = 9; fn %s() { %s } }\n" % (name, call))
    open(os.path.join(VERIF, "harness", "gen_query_ac.rs"), "w").write("".join(lines))
    lines = ["// GENERATED by /verif/vlib/gen.py -- do not edit by hand.\n"]
    for (name, call, tier, covers, what) in c09_cases():
        lines.append("crate::vharness! { unwind = 9; fn %s() { %s } }\n" % (name, call))
    open(os.path.join(VERIF, "harness", "gen_degree_ac.rs"), "w").write("".join(lines))
    lines = ["// GENERATED by /verif/vlib/gen.py -- do not edit by hand.\n"]
    for (name, call, tier, covers, what) in c10_cases():
        lines.append("crate::vharness! { unwind = 9; fn %s() { %s } }\n" % (name, call))
    open(os.path.join(VERIF, "harness", "gen_components_ac.rs"), "w").write("".join(lines))
    lines = ["// GENERATED by /verif/vlib/gen.py -- do not edit by hand.\n"]
    for (name, call, tier, covers, what) in c15_cases():
        lines.append("crate::vharness! { unwind = 9; fn %s() { %s } }\n" % (name, call))
    open(os.path.join(VERIF, "harness", "gen_convert_ac.rs"), "w").write("".join(lines))
    lines = ["// GENERATED by /verif/vlib/gen.py -- do not edit by hand.\n"]
    for (name, call, tier, covers, what) in c04_cases() + c08_cases():
        lines.append("crate::vharness! { unwind = 8; fn %s() { %s } }\n" % (name, call))
    open(os.path.join(VERIF, "harness", "gen_dijkstra_ac.rs"), "w").write("".join(lines))
    lines = ["// GENERATED by /verif/vlib/gen.py -- do not edit by hand.\n"]
    for (name, call, tier, covers, what) in c11_cases():
        lines.append("crate::vharness! { unwind = 9; fn %s() { %s } }\n" % (name, call))
    open(os.path.join(VERIF, "harness", "gen_cluster_ac.rs"), "w").write("".join(lines))
    lines = ["// GENERATED by /verif/vlib/gen.py -- do not edit by hand.\n"]
    for (name, call, tier, covers, what) in c05_cases():
        lines.append("crate::vharness! { unwind = 8; fn %s() { %s } }\n" % (name, call))
    open(os.path.join(VERIF, "harness", "gen_betweenness_ac.rs"), "w").write("".join(lines))
    lines = ["// GENERATED by /verif/vlib/gen.py -- do not edit by hand.\n"]
    for (name, call, tier, covers, what) in c06_cases():
        lines.append("crate::vharness! { unwind = 8; fn %s() { %s } }\n" % (name, call))
    open(os.path.join(VERIF, "harness", "gen_closeness_ac.rs"), "w").write("".join(lines))
    lines = ["// GENERATED by /verif/vlib/gen.py -- do not edit by hand.\n"]
    for (name, call, tier, covers, what) in c20_cases():
        lines.append(call + "\n")
    open(os.path.join(VERIF, "harness", "gen_totality_ac.rs"), "w").write("".join(lines))

if __name__ == "__main__":
    emit()
    print(len(c01_cases()), len(c03_cases()))
