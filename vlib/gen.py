"""Scenario enumeration shared by the harness generator and the registry."""
import os
VERIF = os.path.dirname(os.path.dirname(os.path.abspath(__file__)))
KINDS = [("ds", True, False), ("us", False, False), ("dm", True, True), ("um", False, True)]
B = {True: "true", False: "false"}

def c01_quick_pick(kn, pre, op, dd):
    """Thin the quick tier: every (pre, op) cell appears for every dedupe value on at least one
    directed and one undirected kind; the full product is the thorough tier."""
    h = (pre * 7 + op * 3 + dd) % 4
    kinds = ["ds", "us", "dm", "um"]
    # duplicate-sensitive cells: all dedupe values on the single-edge kinds
    if (pre, op) in {(2, 0), (2, 1), (6, 8), (6, 3), (4, 2), (2, 12)}:
        return kn in ("ds", "us") or (dd == 0 and kn == kinds[2 + (pre + op) % 2])
    # other cells: dedupe is irrelevant to the outcome; rotate kinds and dedupe values
    return kn == kinds[h]

def c01_cases():
    """(name, rust call, tier, covers, what)"""
    out = []
    # quick: policy-ladder cells on the characteristic pre-states
    quick = {
        # (pre, op)
        (0, 0), (0, 2), (0, 6),            # empty graph: create both / self-loop on missing node
        (1, 0), (1, 2), (1, 4), (1, 5),    # nodes only: fresh edge, self-loop, missing target / source
        (2, 0), (2, 1), (2, 3),            # stored edge: duplicate same / flipped orientation, fresh with missing node 1
        (4, 2),                            # stored self-loop: duplicate self-loop
        (6, 8), (6, 3),                    # name order != position order: duplicate same / flipped
        (2, 9), (2, 10), (2, 11), (2, 12), # add_node existing first/second, new; add_edge_tuple duplicate
    }
    pres = range(0, 7)
    ops = range(0, 13)
    for (kn, d, m) in KINDS:
        for pre in pres:
            for op in ops:
                if pre == 5 and not m:
                    continue   # same shape as pre 2 on single-edge kinds
                if pre in (3, 6) and op == 7:
                    continue   # would need 5 nodes (model bound MAXN = 4)
                for dd in range(3):
                    tier = "quick" if ((pre, op) in quick and (dd + pre + op + len(kn)) % 1 == 0 and c01_quick_pick(kn, pre, op, dd)) else "thorough"
                    name = "c01_step_%s_p%d_o%02d_d%d" % (kn, pre, op, dd)
                    call = "c01_step(%s, %s, %d, %d, %d)" % (B[d], B[m], pre, op, dd)
                    covers = ["op accepted"] if op not in (2, 6) else []
                    what = "kind=%s pre-state #%d, operation #%d, dedupe=%d; 8 policy combinations (missing-node x self_loops x self-loop strategy), weights and attributes symbolic" % (kn, pre, op, dd)
                    out.append((name, call, tier, covers, what))
    # public getters + full O(n^2) representation invariant after a concrete-policy operation
    for (kn, d, m) in KINDS:
        for (pre, op) in [(2, 0), (2, 1), (3, 8), (6, 3), (1, 2), (2, 7), (2, 4)]:
            for dd in range(3):
                tier = "quick" if ((pre, op) in [(2, 1), (6, 3)] and dd == 2 and kn in ("ds", "us")) or ((pre, op) == (2, 7) and dd == 0 and kn == "um") else "thorough"
                name = "c01_getters_%s_p%d_o%02d_d%d" % (kn, pre, op, dd)
                call = "c01_getters(%s, %s, %d, %d, %d)" % (B[d], B[m], pre, op, dd)
                out.append((name, call, tier, [], "kind=%s pre-state #%d, add_edge #%d under concrete permissive policies with dedupe=%d; weights/attributes symbolic; public getters and the full representation invariant" % (kn, pre, op, dd)))
    # batches (thorough, plus two quick ones)
    for (kn, d, m) in KINDS:
        for (pre, o1, o2, which, tier) in [(1, 0, 1, 0, "quick"), (1, 2, 0, 0, "thorough"), (1, 4, 0, 1, "quick"),
                                           (2, 3, 0, 0, "thorough"), (0, 0, 0, 1, "thorough"), (1, 0, 4, 0, "thorough")]:
            if tier == "quick" and kn in ("dm",):
                tier = "thorough"
            name = "c01_batch_%s_p%d_o%02d_o%02d_%s" % (kn, pre, o1, o2, "edges" if which == 0 else "tuples")
            call = "c01_batch(%s, %s, %d, %d, %d, %d, %d)" % (B[d], B[m], pre, o1, o2, which, (pre + o1 + o2) % 3)
            out.append((name, call, tier, ["op accepted", "op rejected"],
                        "kind=%s pre-state #%d, batch of two edges (#%d,#%d) via %s; policies symbolic" % (kn, pre, o1, o2, "add_edges" if which == 0 else "add_edge_tuples")))
    for (kn, d, m) in KINDS:
        for dd in range(3):
            for create in (True, False):
                tier = "quick" if (kn in ("us", "ds") and create) else "thorough"
                name = "c01_new_%s_d%d_%s" % (kn, dd, "create" if create else "error")
                call = "c01_from_nodes_and_edges(%s, %s, %d, %s)" % (B[d], B[m], dd, B[create])
                out.append((name, call, tier, [], "new_from_nodes_and_edges, kind=%s dedupe=%d create=%s; weights/attributes symbolic" % (kn, dd, create)))
    return out

def c03_cases():
    out = []
    quick = {(2, 0), (2, 1), (6, 8), (6, 3), (4, 2), (5, 0), (3, 1)}
    for (kn, d, m) in KINDS:
        for pre in range(2, 7):
            for op in (0, 1, 2, 3, 8):
                if pre == 5 and not m:
                    continue
                for dd in range(3):
                    tier = "quick" if ((pre, op) in quick and (kn in ("ds", "us") or dd == 0)) else "thorough"
                    name = "c03_step_%s_p%d_o%02d_d%d" % (kn, pre, op, dd)
                    call = "c03_step(%s, %s, %d, %d, %d)" % (B[d], B[m], pre, op, dd)
                    out.append((name, call, tier, [], "kind=%s pre-state #%d then add_edge #%d, dedupe=%d; 8 remaining policy combinations and f64 weights symbolic (uniformly weighted or unweighted)" % (kn, pre, op, dd)))
    return out

def emit():
    lines = ["// GENERATED by /verif/vlib/gen.py -- do not edit by hand.\n"]
    for (name, call, tier, covers, what) in c01_cases() + c03_cases():
        lines.append("crate::vharness! { unwind = 7; fn %s() { %s } }\n" % (name, call))
    open(os.path.join(VERIF, "harness", "gen_creation_ac.rs"), "w").write("".join(lines))

if __name__ == "__main__":
    emit()
    print(len(c01_cases()), len(c03_cases()))
