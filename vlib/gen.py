"""Scenario enumeration shared by the harness generator and the registry."""
import os
VERIF = os.path.dirname(os.path.dirname(os.path.abspath(__file__)))
KINDS = [("ds", True, False), ("us", False, False), ("dm", True, True), ("um", False, True)]
B = {True: "true", False: "false"}

OPS = [(2, 0), (0, 2), (2, 2), (0, 1), (2, 3), (3, 2), (3, 3), (3, 4), (1, 0), None, None, None, (2, 0)]
PRE_EDGES = {0: [], 1: [], 2: [(2, 0)], 3: [(2, 0), (0, 1)], 4: [(2, 2)], 5: [(2, 0)], 6: [(1, 0)]}
PRE_NODES = {0: [], 1: [2, 0], 2: [2, 0], 3: [2, 0, 1], 4: [2, 0], 5: [2, 0], 6: [2, 0, 1]}

def c01_is_dup(kn, pre, op):
    if 9 <= op <= 11:
        return False
    u, v = OPS[op]
    return any((a, b) == (u, v) or (kn in ("us", "um") and (b, a) == (u, v)) for (a, b) in PRE_EDGES[pre])

def c01_needs_create(pre, op):
    if 9 <= op <= 11:
        return False
    u, v = OPS[op]
    return u not in PRE_NODES[pre] or v not in PRE_NODES[pre]

def c01_mm_values(pre, op):
    """missing-node strategy: concrete (0 = Create, 1 = Error) when the operation names a node that
    is not in the pre-state, symbolic (2) otherwise."""
    return (0, 1) if c01_needs_create(pre, op) else (2,)

def c01_cost_class(kn, pre, op, dd, mm=2):
    """'cheap' (<= ~60 s) or 'heavy' (minutes / > 20 GB), from measurements: on single-edge kinds
    an operation that stores a *new* pair under dedupe Error/KeepFirst leaves a state whose shape
    depends on `Result<&Edge, Error>::is_ok()`, which CBMC cannot constant-fold; reading that
    state back costs minutes. The undirected duplicate self-loop under KeepLast is heavy too."""
    single = kn in ("ds", "us")
    if not single:
        return "cheap"
    if 9 <= op <= 11:
        return "cheap"
    if mm == 1:
        return "cheap"          # rejected before anything is touched
    if kn == "us" and (pre, op) == (4, 2):
        return "heavy"
    if not c01_is_dup(kn, pre, op) and dd != 2:
        return "heavy"
    return "cheap"

def c01_quick_pick(kn, pre, op, dd, mm=2):
    """Quick tier: every (pre, op) cell of the quick list on the cheap cost class; duplicate cells
    under all three dedupe strategies on both single-edge kinds; other cells rotate kinds."""
    if c01_cost_class(kn, pre, op, dd, mm) != "cheap":
        return False
    single = kn in ("ds", "us")
    dup_cells = {(2, 0), (2, 1), (6, 8), (6, 3), (4, 2), (2, 12)}
    if (pre, op) in dup_cells:
        if single:
            return True
        return dd == 0 and kn == ("dm" if (pre + op) % 2 == 0 else "um")
    if mm == 1:
        # rejected-for-missing-node cells: dedupe irrelevant, rotate
        return dd == (pre + op) % 3 and kn == ["ds", "us", "dm", "um"][(pre + op) % 4]
    if single:
        return dd == 2 and kn == ("ds" if (pre + op) % 2 == 0 else "us")
    return dd == (pre + op) % 3 and kn == ("dm" if (pre + op) % 2 == 1 else "um")

def c01_cases():
    """(name, rust call, tier, covers, what)"""
    out = []
    # quick: policy-ladder cells on the characteristic pre-states
    quick = {
        # (pre, op)
        (0, 0), (0, 2), (0, 6),            # empty graph: create both / self-loop on missing node
        (1, 0), (1, 2), (1, 4), (1, 5),    # nodes only: fresh edge, self-loop, missing target / source
        (2, 0), (2, 1), (2, 3),            # stored edge: duplicate same / flipped orientation, fresh with missing node 1
        (4, 2),                            # stored self-loop: duplicate self-loop
        (6, 8), (6, 3),                    # name order != position order: duplicate same / flipped
        (2, 9), (2, 10), (2, 11), (2, 12), # add_node existing first/second, new; add_edge_tuple duplicate
    }
    pres = range(0, 7)
    ops = range(0, 13)
    for (kn, d, m) in KINDS:
        for pre in pres:
            for op in ops:
                if pre == 5 and not m:
                    continue   # same shape as pre 2 on single-edge kinds
                if pre in (3, 6) and op == 7:
                    continue   # would need 5 nodes (model bound MAXN = 4)
                for dd in range(3):
                  for mm in c01_mm_values(pre, op):
                    tier = "quick" if ((pre, op) in quick and c01_quick_pick(kn, pre, op, dd, mm)) else ("thorough" if c01_cost_class(kn, pre, op, dd, mm) == "cheap" else "full")
                    name = "c01_step_%s_p%d_o%02d_d%d_m%d" % (kn, pre, op, dd, mm)
                    call = "c01_step(%s, %s, %d, %d, %d, %d)" % (B[d], B[m], pre, op, dd, mm)
                    if mm == 1 or (c01_is_dup(kn, pre, op) and dd == 0 and kn in ("ds", "us")):
                        covers = ["op rejected"]
                    else:
                        covers = ["op accepted"]
                    what = "kind=%s pre-state #%d, operation #%d, dedupe=%d, missing-node strategy %s; remaining policy fields (self_loops x self-loop strategy%s), weights and attributes symbolic" % (kn, pre, op, dd, ["Create", "Error", "symbolic"][mm], " x missing-node" if mm == 2 else "")
                    out.append((name, call, tier, covers, what))
    # public getters + full O(n^2) representation invariant after a concrete-policy operation
    for (kn, d, m) in KINDS:
        for (pre, op) in [(2, 0), (2, 1), (3, 8), (6, 3), (1, 2), (2, 7), (2, 4)]:
            for dd in range(3):
                tier = "quick" if ((pre, op) in [(2, 1), (6, 3)] and dd == 2 and kn in ("ds", "us")) or ((pre, op) == (2, 7) and dd == 0 and kn == "um") else "thorough"
                name = "c01_getters_%s_p%d_o%02d_d%d" % (kn, pre, op, dd)
                call = "c01_getters(%s, %s, %d, %d, %d)" % (B[d], B[m], pre, op, dd)
                out.append((name, call, tier, [], "kind=%s pre-state #%d, add_edge #%d under concrete permissive policies with dedupe=%d; weights/attributes symbolic; public getters and the full representation invariant" % (kn, pre, op, dd)))
    # batches (thorough, plus two quick ones)
    for (kn, d, m) in KINDS:
        for (pre, o1, o2, which, tier) in [(1, 0, 1, 0, "quick"), (1, 2, 0, 0, "thorough"), (1, 4, 0, 1, "quick"),
                                           (2, 3, 0, 0, "thorough"), (0, 0, 0, 1, "thorough"), (1, 0, 4, 0, "thorough")]:
            if tier == "quick" and kn in ("dm",):
                tier = "thorough"
            name = "c01_batch_%s_p%d_o%02d_o%02d_%s" % (kn, pre, o1, o2, "edges" if which == 0 else "tuples")
            call = "c01_batch(%s, %s, %d, %d, %d, %d, %d, %d)" % (B[d], B[m], pre, o1, o2, which, 2 if kn in ("ds", "us") else (pre + o1 + o2) % 3, 1 if (c01_needs_create(pre, o1) or c01_needs_create(pre, o2)) else 2)
            out.append((name, call, tier, ["op accepted"],
                        "kind=%s pre-state #%d, batch of two edges (#%d,#%d) via %s; policies symbolic" % (kn, pre, o1, o2, "add_edges" if which == 0 else "add_edge_tuples")))
    for (kn, d, m) in KINDS:
        for dd in range(3):
            for create in (True, False):
                tier = "full"   # measured: three policy-dependent add_edge calls from empty = 1.2 M steps, > 24 GB
                name = "c01_new_%s_d%d_%s" % (kn, dd, "create" if create else "error")
                call = "c01_from_nodes_and_edges(%s, %s, %d, %s)" % (B[d], B[m], dd, B[create])
                out.append((name, call, tier, [], "new_from_nodes_and_edges, kind=%s dedupe=%d create=%s; weights/attributes symbolic" % (kn, dd, create)))
    return out

def c03_quick_pick(kn, pre, op, dd):
    single = kn in ("ds", "us")
    if not single:
        return dd == 0
    if pre == 3:
        return False
    # measured > 3 min each: fresh edge on a directed single-edge graph under Error/KeepFirst,
    # duplicate undirected self-loop
    return c01_cost_class(kn, pre, op, dd) == "cheap"

def c03_cases():
    out = []
    quick = {(2, 0), (2, 1), (6, 8), (6, 3), (4, 2), (5, 0), (3, 1)}
    for (kn, d, m) in KINDS:
        for pre in range(2, 7):
            for op in (0, 1, 2, 3, 8):
                if pre == 5 and not m:
                    continue
                for dd in range(3):
                    mm = 0 if c01_needs_create(pre, op) else 2
                    tier = "quick" if ((pre, op) in quick and c03_quick_pick(kn, pre, op, dd)) else ("thorough" if c01_cost_class(kn, pre, op, dd) == "cheap" else "full")
                    name = "c03_step_%s_p%d_o%02d_d%d" % (kn, pre, op, dd)
                    call = "c03_step(%s, %s, %d, %d, %d, %d)" % (B[d], B[m], pre, op, dd, mm)
                    out.append((name, call, tier, [], "kind=%s pre-state #%d then add_edge #%d, dedupe=%d; 8 remaining policy combinations and f64 weights symbolic (uniformly weighted or unweighted)" % (kn, pre, op, dd)))
    return out

def c02_admissible(d, m, s):
    if s == 2 and not m:
        return False
    if s == 3 and not d and not m:
        return False
    return True

C02_GROUPS = [
    ("pairs", "c02_pairs", [], "get_edge / get_edges for all 16 ordered pairs over {2,0,1,3}"),
    ("nodeedges", "c02_node_edges", ["reached end"], "get_edges_for_node / get_in_edges_for_node / get_out_edges_for_node for every name incl. an absent one"),
    ("setedges", "c02_nodes_edges", ["reached end"], "get_edges_for_nodes / in / out for a 2-element set and a set with an absent name"),
    ("neigh", "c02_neighbours", ["reached end"], "successor / predecessor / neighbour queries, name lists and name-keyed maps for every name"),
    ("nodes", "c02_nodes_bfs", ["reached end"], "has_node(s), name<->position round trip, attributes by position"),
    ("build", "c02_build_matches_history", ["reached end"], "build_direct vs real add_node/add_edge history: same abstraction, full representation invariant on both"),
]

def c02_cases():
    out = []
    quick = {("pairs", 1), ("pairs", 2), ("pairs", 3), ("nodeedges", 1), ("nodeedges", 2), ("setedges", 5), ("neigh", 1), ("neigh", 5),
             ("nodes", 0), ("nodes", 5), ("build", 1), ("build", 2), ("build", 5), ("build", 0)}
    for (kn, d, m) in KINDS:
        for s in range(6):
            if not c02_admissible(d, m, s):
                continue
            for (gname, fn, covers, what) in C02_GROUPS:
                tier = "quick" if (gname, s) in quick else "thorough"
                if gname == "build" and kn in ("ds", "us") and len({0: 2, 1: 2, 2: 3, 3: 2, 4: 0, 5: 3}[s] * [0]) >= 3:
                    tier = "full"     # three real add_edge calls on a single-edge kind: measured > 24 GB
                if gname == "build" and kn == "us" and tier == "quick" and s != 1:
                    tier = "thorough"
                if gname == "neigh" and s == 5 and kn != "ds":
                    tier = "thorough" if tier == "quick" else tier
                name = "c02_%s_%s_s%d" % (gname, kn, s)
                call = "%s(%s, %s, %d)" % (fn, B[d], B[m], s)
                out.append((name, call, tier, covers, "kind=%s shape #%d: %s; weights and attributes symbolic" % (kn, s, what)))
            for start in range(3):
                tier = "quick" if (s == 5 and start == 0 and kn == "ds") or (s == 1 and start == 2 and kn == "dm") else ("thorough" if d else "full")
                out.append(("c02_bfs_%s_s%d_n%d" % (kn, s, start), "c02_bfs(%s, %s, %d, %d)" % (B[d], B[m], s, start), tier, ["reached end"],
                            "kind=%s shape #%d: breadth_first_search from the node at position %d vs the reachability closure" % (kn, s, start)))
    return out

def c09_cases():
    out = []
    for (kn, d, m) in KINDS:
        for s in range(6):
            if not c02_admissible(d, m, s):
                continue
            for (gname, fn) in [("counts", "c09_counts"), ("weighted", "c09_weighted")]:
                tier = "quick" if s in (1, 2, 5) or (s == 3 and gname == "counts") else "thorough"
                out.append(("c09_%s_%s_s%d" % (gname, kn, s), "%s(%s, %s, %d)" % (fn, B[d], B[m], s), tier, ["reached end"],
                            "kind=%s shape #%d: %s; integer weights 1..8 symbolic" % (kn, s, "node/edge counts, size, degrees, handshake identities" if gname == "counts" else "weighted degrees, density, degree centrality")))
    return out

def c10_cases():
    out = []
    # topology symbolic (mask = -1): one query over all 16 undirected / 128 directed topologies
    out.append(("c10_und_sym_single", "c10_undirected(-1, false)", "quick", ["three singleton components", "one component", "two components"], "undirected single-edge graphs on 3 nodes, all 16 topologies (3 pairs + a self-loop) symbolic: connected_components, number_of_, node_connected_component, WrongMethod guards"))
    out.append(("c10_und_sym_multi", "c10_undirected(-1, true)", "thorough", ["one component"], "as above on the multi-edge kind"))
    out.append(("c10_weak_sym", "c10_directed(-1, false, 0)", "quick", ["two components"], "directed graphs on 3 nodes, all 128 topologies (6 ordered pairs + a self-loop) symbolic: weakly_connected_components + WrongMethod guards"))
    out.append(("c10_strong_sym", "c10_directed(-1, false, 1)", "quick", ["one component", "two components"], "directed graphs on 3 nodes, all 128 topologies symbolic: strongly_connected_components"))
    for d in (True, False):
        for k in (1, 2, 3):
            out.append(("c10_bfsparts_%s_k%d_sym" % ("d" if d else "u", k), "c10_bfs_partitions(%s, -1, %d)" % (B[d], k), "quick" if k == 2 else "thorough", ["reached end"],
                        "%s graphs on 3 nodes, all topologies symbolic: bfs_equal_size_partitions(%d)" % ("directed" if d else "undirected", k)))
    # a few constant topologies (cheap cross-check of the symbolic encoding)
    for mask in (0b0000011, 0b0111111, 0b1000101):
        out.append(("c10_strong_m%d" % mask, "c10_directed(%d, false, 1)" % mask, "thorough", [], "directed topology mask %d: strongly_connected_components" % mask))
    return out

def c15_cases():
    out = []
    # subsets over [2,0,1,3] as bitmasks: {2,0}=0b0011, {0,1,3}=0b1110, {1}=0b0100, all=0b0111, {}=0, {2,1}=0b0101
    for (kn, d, m) in KINDS:
        for s in (0, 1, 3, 5):
            if not c02_admissible(d, m, s):
                continue
            for set_ in (0b0011, 0b1110, 0b0100, 0b0111, 0b0000, 0b0101):
                quick = (s, set_) in {(0, 0b0011), (1, 0b1110), (3, 0b0011), (0, 0b0100)} and kn in ("dm", "us")
                heavy = (kn in ("ds", "us")) and s == 5 and set_ == 0b0111
                tier = "quick" if quick else ("full" if heavy else "thorough")
                out.append(("c15_sub_%s_s%d_x%d" % (kn, s, set_), "c15_subgraph(%s, %s, %d, %d)" % (B[d], B[m], s, set_), tier, ["reached end"],
                            "kind=%s shape #%d: get_subgraph(S) for the concrete S mask %s; weights/attributes symbolic" % (kn, s, bin(set_))))
        for s in (0, 1, 3):
            if not c02_admissible(d, m, s):
                continue
            tier = "quick" if (s in (1, 3) and kn in ("dm", "ds")) or (s == 0 and kn == "us") else "thorough"
            out.append(("c15_rev_%s_s%d" % (kn, s), "c15_reverse_reweight(%s, %s, %d)" % (B[d], B[m], s), tier, ["reached end"],
                        "kind=%s shape #%d: reverse (twice = identity), set_all_edge_weights(w) for arbitrary f64 w; WrongMethod guards" % (kn, s)))
        for s in (2, 3, 0):
            if not c02_admissible(d, m, s):
                continue
            tier = "quick" if (s == 2 and m) or (s == 0 and kn == "ds") else "thorough"
            out.append(("c15_collapse_%s_s%d" % (kn, s), "c15_collapse(%s, %s, %d)" % (B[d], B[m], s), tier, ["reached end"] + (["a group was collapsed"] if (m and s in (2,)) or (kn == "um" and s == 3) else []),
                        "kind=%s shape #%d: to_single_edges (integer weights 1..8, exact sums); WrongMethod guard" % (kn, s)))
    return out

def emit():
    lines = ["// GENERATED by /verif/vlib/gen.py -- do not edit by hand.\n"]
    for (name, call, tier, covers, what) in c01_cases() + c03_cases():
        lines.append("crate::vharness! { unwind = 7; fn %s() { %s } }\n" % (name, call))
    open(os.path.join(VERIF, "harness", "gen_creation_ac.rs"), "w").write("".join(lines))
    lines = ["// GENERATED by /verif/vlib/gen.py -- do not edit by hand.\n"]
    for (name, call, tier, covers, what) in c02_cases():
        lines.append("crate::vharness! { unwind = 9; fn %s() { %s } }\n" % (name, call))
    open(os.path.join(VERIF, "harness", "gen_query_ac.rs"), "w").write("".join(lines))
    lines = ["// GENERATED by /verif/vlib/gen.py -- do not edit by hand.\n"]
    for (name, call, tier, covers, what) in c09_cases():
        lines.append("crate::vharness! { unwind = 9; fn %s() { %s } }\n" % (name, call))
    open(os.path.join(VERIF, "harness", "gen_degree_ac.rs"), "w").write("".join(lines))
    lines = ["// GENERATED by /verif/vlib/gen.py -- do not edit by hand.\n"]
    for (name, call, tier, covers, what) in c10_cases():
        lines.append("crate::vharness! { unwind = 9; fn %s() { %s } }\n" % (name, call))
    open(os.path.join(VERIF, "harness", "gen_components_ac.rs"), "w").write("".join(lines))
    lines = ["// GENERATED by /verif/vlib/gen.py -- do not edit by hand.\n"]
    for (name, call, tier, covers, what) in c15_cases():
        lines.append("crate::vharness! { unwind = 9; fn %s() { %s } }\n" % (name, call))
    open(os.path.join(VERIF, "harness", "gen_convert_ac.rs"), "w").write("".join(lines))

if __name__ == "__main__":
    emit()
    print(len(c01_cases()), len(c03_cases()))
