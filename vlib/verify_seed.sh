#!/bin/bash
# usage: verify_seed.sh <PROP> <k>  -- confirms a sub-agent's seeded change in its scratch worktree
P=$1; K=$2; WT=/tmp/mut/$P; OUT=$WT/_out
cd $WT || exit 2
git checkout -q -- src 2>/dev/null; rm -f tests/verif_demo_*.rs
cp $OUT/demo$K.rs tests/verif_demo_${P}_$K.rs
export CARGO_NET_OFFLINE=true
clean=$(cargo test --offline --test verif_demo_${P}_$K 2>&1 | grep -E "^test result" | head -1)
git apply $OUT/patch$K.diff || { echo "APPLY FAILED"; exit 2; }
mut=$(cargo test --offline --test verif_demo_${P}_$K 2>&1 | grep -E "^test result|error\[" | head -1)
rm -f tests/verif_demo_${P}_$K.rs
base=$(VERIF_BASELINE_REPO=$WT /verif/baseline.sh | head -1)
git checkout -q -- src
echo "$P/$K clean: $clean | mutated: $mut | $base"
