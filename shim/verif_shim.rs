//! Abstract containers for the K-ac build (see /verif/DESIGN.md 3.2).
//!
//! `HashMap` / `HashSet` / `IntMap` / `IntSet` are modelled as *finite maps / sets with an
//! unspecified but fixed iteration order*: an inline array of `CAP` optional entries, no heap,
//! no hashing. Only the method surface graphrs uses is provided. Observable behaviour equals
//! `std::collections` up to iteration order (insertion order into the first free slot here).
//! Capacity overflow is an explicit panic with the marker text `VERIF_SHIM_CAPACITY`, which the
//! runner reports as "bound too small" (inconclusive), never as a property violation.
#![allow(dead_code)]

use core::borrow::Borrow;
use core::fmt;

include!(concat!(env!("VERIF_SHIM_CFG_DIR"), "/shim_cap.rs"));

pub struct HashMap<K, V> {
    pub(crate) slots: [Option<(K, V)>; CAP],
}

pub type IntMap<K, V> = HashMap<K, V>;

impl<K, V> HashMap<K, V> {
    pub fn new() -> Self {
        HashMap {
            slots: [const { None }; CAP],
        }
    }
    pub fn with_capacity(_n: usize) -> Self {
        Self::new()
    }
    pub fn len(&self) -> usize {
        let mut n = 0;
        for s in self.slots.iter() {
            if s.is_some() {
                n += 1;
            }
        }
        n
    }
    pub fn is_empty(&self) -> bool {
        self.len() == 0
    }
    pub fn clear(&mut self) {
        for s in self.slots.iter_mut() {
            *s = None;
        }
    }
    pub fn iter(&self) -> impl Iterator<Item = (&K, &V)> + '_ {
        self.slots
            .iter()
            .filter_map(|s| s.as_ref().map(|(k, v)| (k, v)))
    }
    pub fn iter_mut(&mut self) -> impl Iterator<Item = (&K, &mut V)> + '_ {
        self.slots
            .iter_mut()
            .filter_map(|s| s.as_mut().map(|(k, v)| (&*k, v)))
    }
    pub fn keys(&self) -> impl Iterator<Item = &K> + '_ {
        self.slots.iter().filter_map(|s| s.as_ref().map(|(k, _)| k))
    }
    pub fn values(&self) -> impl Iterator<Item = &V> + '_ {
        self.slots.iter().filter_map(|s| s.as_ref().map(|(_, v)| v))
    }
    pub fn values_mut(&mut self) -> impl Iterator<Item = &mut V> + '_ {
        self.slots
            .iter_mut()
            .filter_map(|s| s.as_mut().map(|(_, v)| v))
    }
    pub fn into_keys(self) -> impl Iterator<Item = K> {
        self.into_iter().map(|(k, _)| k)
    }
    pub fn into_values(self) -> impl Iterator<Item = V> {
        self.into_iter().map(|(_, v)| v)
    }
}

impl<K: Eq, V> HashMap<K, V> {
    fn find<Q: ?Sized + Eq>(&self, k: &Q) -> Option<usize>
    where
        K: Borrow<Q>,
    {
        let mut i = 0;
        while i < CAP {
            if let Some((kk, _)) = &self.slots[i] {
                if kk.borrow() == k {
                    return Some(i);
                }
            }
            i += 1;
        }
        None
    }
    fn free_slot(&self) -> usize {
        let mut i = 0;
        while i < CAP {
            if self.slots[i].is_none() {
                return i;
            }
            i += 1;
        }
        panic!("VERIF_SHIM_CAPACITY");
    }
    pub fn get<Q: ?Sized + Eq>(&self, k: &Q) -> Option<&V>
    where
        K: Borrow<Q>,
    {
        match self.find(k) {
            Some(i) => self.slots[i].as_ref().map(|(_, v)| v),
            None => None,
        }
    }
    pub fn get_mut<Q: ?Sized + Eq>(&mut self, k: &Q) -> Option<&mut V>
    where
        K: Borrow<Q>,
    {
        match self.find(k) {
            Some(i) => self.slots[i].as_mut().map(|(_, v)| v),
            None => None,
        }
    }
    pub fn contains_key<Q: ?Sized + Eq>(&self, k: &Q) -> bool
    where
        K: Borrow<Q>,
    {
        self.find(k).is_some()
    }
    pub fn insert(&mut self, k: K, v: V) -> Option<V> {
        match self.find(&k) {
            Some(i) => match &mut self.slots[i] {
                Some((_, vv)) => Some(core::mem::replace(vv, v)),
                None => unreachable!(),
            },
            None => {
                let i = self.free_slot();
                self.slots[i] = Some((k, v));
                None
            }
        }
    }
    pub fn remove<Q: ?Sized + Eq>(&mut self, k: &Q) -> Option<V>
    where
        K: Borrow<Q>,
    {
        match self.find(k) {
            Some(i) => self.slots[i].take().map(|(_, v)| v),
            None => None,
        }
    }
    pub fn entry(&mut self, k: K) -> Entry<'_, K, V> {
        Entry { map: self, key: k }
    }
    pub fn extend<I: IntoIterator<Item = (K, V)>>(&mut self, it: I) {
        for (k, v) in it {
            self.insert(k, v);
        }
    }
}

pub struct Entry<'a, K, V> {
    map: &'a mut HashMap<K, V>,
    key: K,
}

impl<'a, K: Eq, V> Entry<'a, K, V> {
    pub fn or_insert(self, default: V) -> &'a mut V {
        self.or_insert_with(|| default)
    }
    pub fn or_insert_with<F: FnOnce() -> V>(self, f: F) -> &'a mut V {
        let i = match self.map.find(&self.key) {
            Some(i) => i,
            None => {
                let i = self.map.free_slot();
                self.map.slots[i] = Some((self.key, f()));
                i
            }
        };
        match &mut self.map.slots[i] {
            Some((_, v)) => v,
            None => unreachable!(),
        }
    }
    pub fn or_default(self) -> &'a mut V
    where
        V: Default,
    {
        self.or_insert_with(V::default)
    }
    pub fn and_modify<F: FnOnce(&mut V)>(self, f: F) -> Self {
        if let Some(i) = self.map.find(&self.key) {
            if let Some((_, v)) = &mut self.map.slots[i] {
                f(v);
            }
        }
        self
    }
}

impl<K, V> Default for HashMap<K, V> {
    fn default() -> Self {
        Self::new()
    }
}

impl<K: Clone, V: Clone> Clone for HashMap<K, V> {
    fn clone(&self) -> Self {
        HashMap {
            slots: self.slots.clone(),
        }
    }
}

impl<K: Eq, V: PartialEq> PartialEq for HashMap<K, V> {
    fn eq(&self, other: &Self) -> bool {
        if self.len() != other.len() {
            return false;
        }
        for (k, v) in self.iter() {
            match other.get(k) {
                Some(v2) if *v == *v2 => {}
                _ => return false,
            }
        }
        true
    }
}
impl<K: Eq, V: Eq> Eq for HashMap<K, V> {}

impl<K: fmt::Debug, V: fmt::Debug> fmt::Debug for HashMap<K, V> {
    fn fmt(&self, f: &mut fmt::Formatter<'_>) -> fmt::Result {
        f.debug_map().entries(self.iter()).finish()
    }
}

impl<K: Eq, V> core::iter::FromIterator<(K, V)> for HashMap<K, V> {
    fn from_iter<I: IntoIterator<Item = (K, V)>>(it: I) -> Self {
        let mut m = HashMap::new();
        for (k, v) in it {
            m.insert(k, v);
        }
        m
    }
}

pub struct MapIntoIter<K, V> {
    inner: core::array::IntoIter<Option<(K, V)>, CAP>,
}
impl<K, V> Iterator for MapIntoIter<K, V> {
    type Item = (K, V);
    fn next(&mut self) -> Option<(K, V)> {
        loop {
            match self.inner.next() {
                None => return None,
                Some(Some(kv)) => return Some(kv),
                Some(None) => {}
            }
        }
    }
}
impl<K, V> IntoIterator for HashMap<K, V> {
    type Item = (K, V);
    type IntoIter = MapIntoIter<K, V>;
    fn into_iter(self) -> MapIntoIter<K, V> {
        MapIntoIter {
            inner: IntoIterator::into_iter(self.slots),
        }
    }
}

pub struct MapIter<'a, K, V> {
    slots: &'a [Option<(K, V)>; CAP],
    i: usize,
}
impl<'a, K, V> Iterator for MapIter<'a, K, V> {
    type Item = (&'a K, &'a V);
    fn next(&mut self) -> Option<(&'a K, &'a V)> {
        while self.i < CAP {
            let j = self.i;
            self.i += 1;
            if let Some((k, v)) = &self.slots[j] {
                return Some((k, v));
            }
        }
        None
    }
}
impl<'a, K, V> IntoIterator for &'a HashMap<K, V> {
    type Item = (&'a K, &'a V);
    type IntoIter = MapIter<'a, K, V>;
    fn into_iter(self) -> MapIter<'a, K, V> {
        MapIter {
            slots: &self.slots,
            i: 0,
        }
    }
}

impl<K: Eq, Q: ?Sized + Eq, V> core::ops::Index<&Q> for HashMap<K, V>
where
    K: Borrow<Q>,
{
    type Output = V;
    fn index(&self, k: &Q) -> &V {
        self.get(k).expect("no entry found for key")
    }
}

// ---------------------------------------------------------------------------------------------

pub struct HashSet<T> {
    pub(crate) slots: [Option<T>; CAP],
}

pub type IntSet<T> = HashSet<T>;

impl<T> HashSet<T> {
    pub fn new() -> Self {
        HashSet {
            slots: [const { None }; CAP],
        }
    }
    pub fn with_capacity(_n: usize) -> Self {
        Self::new()
    }
    pub fn len(&self) -> usize {
        let mut n = 0;
        for s in self.slots.iter() {
            if s.is_some() {
                n += 1;
            }
        }
        n
    }
    pub fn is_empty(&self) -> bool {
        self.len() == 0
    }
    pub fn clear(&mut self) {
        for s in self.slots.iter_mut() {
            *s = None;
        }
    }
    pub fn iter(&self) -> SetIter<'_, T> {
        SetIter {
            slots: &self.slots,
            i: 0,
        }
    }
}

impl<T: Eq> HashSet<T> {
    fn find<Q: ?Sized + Eq>(&self, k: &Q) -> Option<usize>
    where
        T: Borrow<Q>,
    {
        let mut i = 0;
        while i < CAP {
            if let Some(kk) = &self.slots[i] {
                if kk.borrow() == k {
                    return Some(i);
                }
            }
            i += 1;
        }
        None
    }
    pub fn contains<Q: ?Sized + Eq>(&self, k: &Q) -> bool
    where
        T: Borrow<Q>,
    {
        self.find(k).is_some()
    }
    pub fn get<Q: ?Sized + Eq>(&self, k: &Q) -> Option<&T>
    where
        T: Borrow<Q>,
    {
        match self.find(k) {
            Some(i) => self.slots[i].as_ref(),
            None => None,
        }
    }
    pub fn insert(&mut self, k: T) -> bool {
        if self.find(&k).is_some() {
            return false;
        }
        let mut i = 0;
        while i < CAP {
            if self.slots[i].is_none() {
                self.slots[i] = Some(k);
                return true;
            }
            i += 1;
        }
        panic!("VERIF_SHIM_CAPACITY");
    }
    pub fn remove<Q: ?Sized + Eq>(&mut self, k: &Q) -> bool
    where
        T: Borrow<Q>,
    {
        match self.find(k) {
            Some(i) => {
                self.slots[i] = None;
                true
            }
            None => false,
        }
    }
    pub fn extend<I: IntoIterator<Item = T>>(&mut self, it: I) {
        for k in it {
            self.insert(k);
        }
    }
    pub fn intersection<'a>(&'a self, other: &'a HashSet<T>) -> impl Iterator<Item = &'a T> + 'a {
        self.iter().filter(move |x| other.contains(*x))
    }
    pub fn difference<'a>(&'a self, other: &'a HashSet<T>) -> impl Iterator<Item = &'a T> + 'a {
        self.iter().filter(move |x| !other.contains(*x))
    }
    pub fn union<'a>(&'a self, other: &'a HashSet<T>) -> impl Iterator<Item = &'a T> + 'a {
        self.iter()
            .chain(other.iter().filter(move |x| !self.contains(*x)))
    }
    pub fn is_subset(&self, other: &HashSet<T>) -> bool {
        self.iter().all(|x| other.contains(x))
    }
    pub fn is_superset(&self, other: &HashSet<T>) -> bool {
        other.is_subset(self)
    }
    pub fn is_disjoint(&self, other: &HashSet<T>) -> bool {
        !self.iter().any(|x| other.contains(x))
    }
}

impl<T> Default for HashSet<T> {
    fn default() -> Self {
        Self::new()
    }
}
impl<T: Clone> Clone for HashSet<T> {
    fn clone(&self) -> Self {
        HashSet {
            slots: self.slots.clone(),
        }
    }
}
impl<T: Eq> PartialEq for HashSet<T> {
    fn eq(&self, other: &Self) -> bool {
        self.len() == other.len() && self.is_subset(other)
    }
}
impl<T: Eq> Eq for HashSet<T> {}
impl<T: fmt::Debug> fmt::Debug for HashSet<T> {
    fn fmt(&self, f: &mut fmt::Formatter<'_>) -> fmt::Result {
        f.debug_set().entries(self.iter()).finish()
    }
}
impl<T: Eq> core::iter::FromIterator<T> for HashSet<T> {
    fn from_iter<I: IntoIterator<Item = T>>(it: I) -> Self {
        let mut s = HashSet::new();
        for k in it {
            s.insert(k);
        }
        s
    }
}

pub struct SetIter<'a, T> {
    slots: &'a [Option<T>; CAP],
    i: usize,
}
impl<'a, T> Iterator for SetIter<'a, T> {
    type Item = &'a T;
    fn next(&mut self) -> Option<&'a T> {
        while self.i < CAP {
            let j = self.i;
            self.i += 1;
            if let Some(k) = &self.slots[j] {
                return Some(k);
            }
        }
        None
    }
}
impl<'a, T> Clone for SetIter<'a, T> {
    fn clone(&self) -> Self {
        SetIter {
            slots: self.slots,
            i: self.i,
        }
    }
}
impl<'a, T> IntoIterator for &'a HashSet<T> {
    type Item = &'a T;
    type IntoIter = SetIter<'a, T>;
    fn into_iter(self) -> SetIter<'a, T> {
        self.iter()
    }
}
pub struct SetIntoIter<T> {
    inner: core::array::IntoIter<Option<T>, CAP>,
}
impl<T> Iterator for SetIntoIter<T> {
    type Item = T;
    fn next(&mut self) -> Option<T> {
        loop {
            match self.inner.next() {
                None => return None,
                Some(Some(k)) => return Some(k),
                Some(None) => {}
            }
        }
    }
}
impl<T> IntoIterator for HashSet<T> {
    type Item = T;
    type IntoIter = SetIntoIter<T>;
    fn into_iter(self) -> SetIntoIter<T> {
        SetIntoIter {
            inner: IntoIterator::into_iter(self.slots),
        }
    }
}
